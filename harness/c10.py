"""C10 - signals-to-torch-feat-dir survives kill / resume and parallelism unchanged.

Fault-injection correspondence against the REAL tool: every invocation is a fresh interpreter
(`/venv/bin/python -c LAUNCHER`, PYTHONPATH=$PDS_REPO/src) in which - before the entry point is
called and without touching /repo - `torch.save` and the manifest file object handed out by
`argparse.FileType('a+')` are wrapped so that the k-th save / k-th manifest line can be made to
die (`os._exit(137)`: nothing volatile survives, like SIGKILL) or to raise `KeyboardInterrupt`
before / in the middle of (truncated file) / after the save, after the line was written to the
file object, after it was flushed.  The same fault schedule is fed to the Lean model.
"""
import concurrent.futures
import hashlib
import json
import os
import shutil
import subprocess
import tempfile
import wave

import numpy as np

from . import common

PROP = "C10"
MODULES = ["PdsVerif.Props.CliTie", "PdsVerif.Props.C10"]
MODEL_MODULES = ["PdsVerif.Model.FeatDir", "PdsVerif.Model.Cli"]
REQUIRED = ["PdsVerif.C10." + n for n in [
    "manifest_sound", "manifest_complete_but_inflight", "completed_eq_uninterrupted", "uninterrupted_run",
    "resume_reaches_completion", "resume_eq_uninterrupted", "old_seeding_breaks_resume",
    "old_buffering_loses_progress", "listed_not_rewritten", "partial_files_are_overwritten",
    "loader_workers_irrelevant", "workers_irrelevant"]] + ["PdsVerif.CliTie." + n for n in ["torchItem_seed", "nonneg_ok_iff", "nonneg_ok_zero", "rules_current_eq", "file_name_rule", "file_name_injective"]]


def translate(repo):
    """decision logic of signals-to-torch-feat-dir (command_line.py) -> Generated/CliConsts.lean (theorems: Props/CliTie.lean)"""
    from .translate import cliconsts
    return cliconsts.generate(repo)

RULE = (
    "a case is a fault schedule on the real tool: (utterance count 0..5, computer config raw|fbank, --num-workers 0..3, "
    "list of invocations each with at most one injected fault (hard kill = os._exit(137) | soft = KeyboardInterrupt) at "
    "the k-th save {before, truncated-in-the-middle, after} or the k-th manifest line {written to the file object, "
    "flushed}), always ending with an unfaulted invocation; --preprocess [\"dither\"] --seed 0 (a legal falsy seed).  quick: 4 fixed schedules "
    "+ a random sample; thorough: every (n, k, stage, kind) single fault + random 2-3 fault schedules.  Every invocation is "
    "one subprocess; after each one the directory, manifest, per-file tensor bytes, inode/mtime and the injector's event "
    "log are compared with the Lean model run on the same schedule and checked against the oracle.  Distinct by schedule; "
    "schedules with at least one fault are the non-trivial ones."
)
TRUSTED = [
    "the injector (harness/c10.py LAUNCHER): wraps torch.save and the argparse.FileType('a+') file object inside the child before the entry point runs; os._exit(137) stands for SIGKILL, a half-written torch.save stream for a write cut short",
    "the abstract tensor feat(cfg, u, key): the model does not say what the pipeline computes (C09 does), only that it is a function of the utterance and the seed key",
    "torch.load / numpy tobytes as the notion of 'identical file content'; os.stat inode + mtime_ns as the notion of 'not rewritten'",
]
ASSUMPTIONS = [
    "map ids are distinct (the tool refuses duplicates) and the starting manifest is sound (empty, or lists only utterances whose file is complete and right)",
    "DataLoader yields items in index order for every num_workers (torch's contract; stated assumption of workers_irrelevant) - sampled by the --num-workers 0/1/2/3 runs only",
    "OS write atomicity: a flushed manifest line is on disk whole or not at all; a file is Partial exactly between torch.save's open and its return - runtime residue, covered by the injected runs only",
    "Python buffering / exit semantics: os._exit and SIGKILL drop the text buffer, an unwinding KeyboardInterrupt lets the interpreter flush open files - runtime residue, sampled by the buf-stage faults",
    "one process at a time on a directory (resume while another invocation is alive is out of scope)",
    "worker generator seeding inside torch (base_seed per worker) is overridden by the per-item torch.manual_seed - only the seeded generator is assumed to be used by the pipeline",
]
LEVEL_TEXT = (
    "Full proof, for every event sequence (any utterance count, every step boundary as kill point, hard kills and soft "
    "interrupts, any number of kills and resumes) from any sound starting disk: manifest soundness; every completed save "
    "except the last is listed (and the last is what a resume redoes first); any history ending with all utterances "
    "listed - and a single unfaulted resume always gets there - leaves exactly the directory of an uninterrupted run; "
    "listed utterances are never recomputed, rewritten or changed; partial files are overwritten; the directory is the "
    "main loop folded over per-item results, independent of worker assignment and generator states.  The old seeding rule "
    "and the missing flush are refuted on witnesses.  The model is tied to the real tool by fault injection in subprocesses."
)
LEVEL_NOTE = (
    "Trusted: the out-of-process injector, the abstract per-utterance tensor function, torch.load/tobytes equality.  "
    "Runtime residue only sampled: OS write atomicity, Python buffering/exit semantics, DataLoader ordering."
)
TECHNIQUE = "Lean 4 invariant induction over fault sequences of a crash/resume state machine + subprocess fault-injection correspondence"

PY = "/venv/bin/python"
SEED = 0   # a legal --seed that is falsy: `seed or random` style handling must not lose it
# not sorted; later ids are substrings / prefixes of earlier ones; two contain a dot after the same stem (an id is an
# opaque string, not a file name whose "extension" may be replaced)
IDS = ["rec12", "rec1.b", "rec1", "ab", "a", "rec1.a"]
CFGS = {
    "raw": None,
    "fbank": {"name": "stft", "bank": {"name": "fbank", "num_filts": 5, "sampling_rate": 8000},
              "frame_length_ms": 10, "frame_shift_ms": 5, "frame_style": "centered"},
    # a short-integration computer (centred, translation > frame shift): ONE computer object processes all the utterances
    # of an invocation in turn, so whatever an utterance leaves behind in it would make an uninterrupted run differ from a
    # resumed one
    "si": {"name": "si", "bank": {"name": "gabor", "scaling_function": "mel", "num_filts": 4, "sampling_rate": 8000},
           "frame_shift_ms": 2.0},
}
STAGES = ["pre", "mid", "post", "buf", "flushed"]

LAUNCHER = r'''
import io, json, os, sys
spec = json.loads(os.environ["C10_FAULT"])
logfd = os.open(os.environ["C10_LOG"], os.O_WRONLY | os.O_APPEND | os.O_CREAT, 0o644)
def log(s):
    os.write(logfd, (s + "\n").encode())
def fire(stage, k):
    return spec["kind"] != "none" and spec["stage"] == stage and spec["k"] == k
def die():
    log("fault")
    if spec["kind"] == "hard":
        os._exit(137)
    raise KeyboardInterrupt()
import argparse
import torch
import pydrobert.speech.command_line as cl
log("src " + os.path.realpath(cl.__file__))
real_save = torch.save
st = {"saves": 0, "lines": 0, "pending": []}
def save(obj, f, *a, **kw):
    st["saves"] += 1
    k = st["saves"]
    name = os.path.basename(os.fspath(f)) if isinstance(f, (str, os.PathLike)) else "?"
    log("pre %d %s" % (k, name))
    if fire("pre", k):
        die()
    if fire("mid", k):
        b = io.BytesIO()
        real_save(obj, b, *a, **kw)
        data = b.getvalue()
        with open(f, "wb") as fh:
            fh.write(data[: max(1, len(data) // 2)])
        die()
    real_save(obj, f, *a, **kw)
    log("post %d %s" % (k, name))
    if fire("post", k):
        die()
torch.save = save
class Proxy(object):
    def __init__(self, f):
        self.__dict__["_f"] = f
        self.__dict__["_acc"] = ""
    def __getattr__(self, n):
        return getattr(self._f, n)
    def __iter__(self):
        return iter(self._f)
    def write(self, s):
        r = self._f.write(s)
        self.__dict__["_acc"] += s
        while "\n" in self._acc:
            line, rest = self._acc.split("\n", 1)
            self.__dict__["_acc"] = rest
            st["lines"] += 1
            st["pending"].append((st["lines"], line))
            log("buf %d %s" % (st["lines"], line))
            if fire("buf", st["lines"]):
                die()
        return r
    def flush(self):
        self._f.flush()
        pend, st["pending"] = st["pending"], []
        for k, line in pend:
            log("flushed %d %s" % (k, line))
        for k, line in pend:
            if fire("flushed", k):
                die()
orig_call = argparse.FileType.__call__
def call(self, string):
    f = orig_call(self, string)
    if "a" in getattr(self, "_mode", ""):
        return Proxy(f)
    return f
argparse.FileType.__call__ = call
rc = cl.signals_to_torch_feat_dir(json.loads(os.environ["C10_ARGV"]))
log("return %s" % rc)
sys.exit(rc)
'''


# ---- inputs ------------------------------------------------------------------------------------


def make_inputs(d, n):
    raw = os.path.join(d, "raw")
    os.makedirs(raw)
    paths = []
    with open(os.path.join(d, "map"), "w") as mp:
        for i in range(n):
            rs = np.random.RandomState(100 + i)
            # utterance 1 is only a few samples long: too short to yield a frame at finalisation, which is when a
            # computer's bookkeeping is most likely to survive into the next utterance it is given
            sig = rs.randint(-2000, 2000, size=5 if i == 1 else 300 + 37 * i).astype(np.int16)
            if i % 2 == 0:
                path = os.path.join(raw, "%d.wav" % i)
                w = wave.open(path, "wb")
                w.setnchannels(1)
                w.setsampwidth(2)
                w.setframerate(8000)
                w.writeframes(sig.tobytes())
                w.close()
            else:
                path = os.path.join(raw, "%d.npy" % i)
                # utterance 3 is stored channels-first with ONE channel, shape (1, S); the others are 1-D: both are legal with
                # the default --channel -1, in any order, on one dataset object
                np.save(path, sig.astype(np.float64)[None, :] if i == 3 else sig.astype(np.float64))
            paths.append(path)
            mp.write("%s %s\n" % (IDS[i], path))
    return paths


NAMINGS = [None, ["", ""], ["utt-", ".feat"], ["p_", ""]]   # --file-prefix / --file-suffix (None: the defaults "", ".pt")


def fname(i_or_id, naming):
    """file name of an utterance under a naming convention"""
    uid = IDS[i_or_id] if isinstance(i_or_id, int) else i_or_id
    pre, suf = naming if naming else ("", ".pt")
    return pre + uid + suf


def argv_for(d, cfg, workers, naming=None):
    a = [os.path.join(d, "map")]
    if CFGS[cfg] is not None:
        a.append(json.dumps(CFGS[cfg]))
    a += [os.path.join(d, "feat"), "--preprocess", '["dither"]', "--seed", str(SEED),
          "--manifest", os.path.join(d, "manifest.txt"), "--num-workers", str(workers)]
    if cfg in ("fbank", "si"):
        # a post-processor object lives as long as its worker: per-utterance normalisation (Standardize without global
        # statistics) must not carry anything from one utterance to the next
        a += ["--postprocess", '["standardize"]']
    if naming:
        # `--opt=value` so that an empty value is passed as such
        a += ["--file-prefix=" + naming[0], "--file-suffix=" + naming[1]]
    return a


def invoke(d, cfg, workers, fault, idx, naming=None):
    """one invocation of the real tool in a fresh interpreter; returns (returncode, event log lines)"""
    log = os.path.join(d, "events%d.log" % idx)
    env = dict(os.environ)
    env.update(PYTHONPATH=common.repo_src(), C10_FAULT=json.dumps(fault), C10_LOG=log,
               C10_ARGV=json.dumps(argv_for(d, cfg, workers, naming)), OMP_NUM_THREADS="1", MKL_NUM_THREADS="1")
    env[common.GUARD] = "1"
    with open(os.path.join(d, "out%d.txt" % idx), "wb") as out:
        try:
            p = subprocess.run([PY, "-c", LAUNCHER], env=env, stdout=out, stderr=subprocess.STDOUT,
                               stdin=subprocess.DEVNULL, timeout=180, cwd=d)
            rc = p.returncode
        except subprocess.TimeoutExpired:
            rc = "timeout"
    try:
        events = open(log).read().split("\n")[:-1]
    except FileNotFoundError:
        events = []
    tail = ""
    if rc not in (0, 137):
        try:
            tail = open(os.path.join(d, "out%d.txt" % idx), errors="replace").read()[-400:]
        except OSError:
            pass
    return rc, events, tail


def snapshot(d, n, naming=None):
    """what is on disk: per utterance (status, digest, ino, mtime_ns, size); manifest lines; stray files"""
    import torch

    feat = os.path.join(d, "feat")
    files = {}
    names = set(os.listdir(feat)) if os.path.isdir(feat) else set()
    for i in range(n):
        name = fname(i, naming)
        path = os.path.join(feat, name)
        if name not in names:
            files[i] = ("A", None, None)
            continue
        names.discard(name)
        stt = os.stat(path)
        ident = (stt.st_ino, stt.st_mtime_ns, stt.st_size)
        try:
            t = torch.load(path)
            a = t.numpy()
            dig = hashlib.sha256(repr((str(a.dtype), a.shape)).encode() + a.tobytes()).hexdigest()
            files[i] = ("C", dig, ident)
        except Exception:
            files[i] = ("P", None, ident)
    try:
        man = [ln.strip() for ln in open(os.path.join(d, "manifest.txt"))]
    except FileNotFoundError:
        man = None
    return dict(files=files, manifest=man, stray=sorted(names))


def run_schedule(root, sc):
    """runs a whole schedule on the real tool. sc: dict(n, cfg, workers, faults=[fault|None...], corrupt)"""
    d = tempfile.mkdtemp(prefix="sc", dir=root)
    try:
        n = sc["n"]
        paths = make_inputs(d, n)
        res = []
        for idx, f in enumerate(sc["faults"]):
            naming = sc.get("naming")
            pre = snapshot(d, n, naming) if idx else None
            corrupted = []
            if idx and sc.get("corrupt") and pre["manifest"]:
                # inputs of listed utterances are not needed any more: a tool that does not recompute never reads them
                for i in range(n):
                    if IDS[i] in pre["manifest"]:
                        with open(paths[i], "wb") as fh:
                            fh.write(b"not an audio file")
                        corrupted.append(i)
            fault = dict(kind="none") if f is None else dict(kind=f["kind"], k=f["k"], stage=f["stage"])
            rc, events, tail = invoke(d, sc["cfg"], sc["workers"], fault, idx, naming)
            res.append(dict(rc=rc, events=events, tail=tail, pre=pre, post=snapshot(d, n, naming), corrupted=corrupted))
        return res
    finally:
        shutil.rmtree(d, ignore_errors=True)


# ---- model side ----------------------------------------------------------------------------------


def fault_tok(f):
    return "none" if f is None else "%s:%d:%s" % ("h" if f["kind"] == "hard" else "s", f["k"], f["stage"])


def model_line(sc):
    return "fd cur %d %d %s" % (sc["n"], SEED, " ".join(fault_tok(f) for f in sc["faults"]))


def parse_model(out):
    """[(trace tokens, file tokens, manifest indices, alive)] per invocation"""
    res = []
    for g in out.split("|"):
        tr, fl, mn, alive = g.split(";")
        lst = lambda s: [] if s == "-" else s.split(",")
        res.append((lst(tr), lst(fl), [int(x) for x in lst(mn)], alive))
    return res


OBS = {"c": "pre", "e": "post", "p": "buf", "f": "flushed"}


def model_events(trace):
    return [(OBS[t[0]], int(t[1:])) for t in trace if t[0] in OBS]


def impl_events(events, naming=None):
    res = []
    names = {fname(i, naming): i for i in range(len(IDS))}
    for ln in events:
        w = ln.split(" ")
        if w[0] in ("pre", "post") and len(w) == 3:
            res.append((w[0], names.get(w[2], w[2])))
        elif w[0] in ("buf", "flushed") and len(w) == 3:
            res.append((w[0], IDS.index(w[2]) if w[2] in IDS else w[2]))
    return res


def impl_view(snap, n, ref):
    files = []
    for i in range(n):
        st, dig, _ = snap["files"][i]
        if st == "C":
            files.append("C%d" % (SEED + i) if ref is not None and dig == ref["files"][i][1] else "C?")
        else:
            files.append(st)
    man = [IDS.index(x) if x in IDS else x for x in (snap["manifest"] or [])]
    return files, man


# ---- schedules -----------------------------------------------------------------------------------


def F(kind, k, stage):
    return dict(kind=kind, k=k, stage=stage)


def cfg_of(n, alt=False):
    return ["raw", "fbank", "si"][(n + (1 if alt else 0)) % 3]


def random_schedule(r, nfaults=None):
    n = r.choice([1, 2, 2, 3, 3, 4, 4, 5, 5])
    nf = nfaults or r.choice([1, 2, 2, 3])
    faults = []
    done = 0
    for _ in range(nf):
        left = max(1, n - done)
        k = r.randrange(1, left + 1) if r.random() < 0.9 else r.randrange(1, n + 2)
        stage = r.choice(STAGES)
        faults.append(F(r.choice(["hard", "hard", "soft"]), k, stage))
        done += k - 1 + (1 if stage == "flushed" else 0)
    sc = dict(n=n, cfg=cfg_of(n, r.random() < 0.3), workers=r.choice([0, 0, 0, 1, 2, 3]),
              faults=faults + [None], corrupt=r.random() < 0.5)
    if r.random() < 0.25:
        sc["naming"] = r.choice(NAMINGS[1:])
    return sc


def schedules(ctx):
    r = ctx.rng
    scs = [
        dict(n=3, cfg=cfg_of(3), workers=0, faults=[F("hard", 3, "post"), None], corrupt=False),
        dict(n=3, cfg=cfg_of(3), workers=0, faults=[F("hard", 2, "mid"), F("hard", 2, "post"), None], corrupt=True),
        dict(n=4, cfg=cfg_of(4), workers=2, faults=[F("soft", 3, "pre"), None], corrupt=True),
        dict(n=2, cfg=cfg_of(2), workers=0, faults=[F("soft", 2, "buf"), None], corrupt=False),
        # other file naming conventions (--file-prefix / --file-suffix), the empty suffix included: a resume must
        # recognise its own files whatever they are called
        dict(n=3, cfg=cfg_of(3), workers=0, faults=[F("hard", 3, "pre"), None], corrupt=False, naming=["", ""]),
        dict(n=3, cfg=cfg_of(3), workers=0, faults=[F("soft", 2, "post"), None], corrupt=True, naming=["utt-", ".feat"]),
        dict(n=2, cfg=cfg_of(2), workers=0, faults=[F("hard", 2, "mid"), None], corrupt=False, naming=["p_", ""]),
    ]
    if ctx.tier == "thorough":
        for n in range(1, 6):
            for k in range(1, n + 1):
                for stage in STAGES:
                    for kind in ("hard", "soft"):
                        scs.append(dict(n=n, cfg=cfg_of(n, (k + len(stage)) % 3 == 0), workers=(k * 7 + n) % 4 if stage == "pre" else 0,
                                        faults=[F(kind, k, stage), None], corrupt=(k + n) % 2 == 0))
    nrand = ctx.scale(14, 120)
    seen = {common.canon(s) for s in scs}
    tries = 0
    while nrand > 0 and tries < 10000:
        tries += 1
        s = random_schedule(r, nfaults=(None if ctx.tier == "thorough" else r.choice([1, 2])))
        if common.canon(s) in seen:
            continue
        seen.add(common.canon(s))
        scs.append(s)
        nrand -= 1
    return scs


def reference_jobs(scs, tier):
    """unfaulted runs: one per (n, cfg) in use with workers=0, plus the worker sweep"""
    refs = {(s["n"], s["cfg"]) for s in scs}
    for n in range(0, 6):
        refs.add((n, cfg_of(n)))
    sweep = [(4, cfg_of(4), w) for w in (1, 2, 3)]
    if tier == "thorough":
        for n in range(0, 6):
            for cfg in CFGS:
                refs.add((n, cfg))
                sweep += [(n, cfg, w) for w in (1, 2, 3)]
    return sorted(refs), sorted(set(sweep))


# ---- oracle + correspondence -----------------------------------------------------------------------


def check_schedule(ctx, sc, res, ref, mout):
    n = sc["n"]
    case = dict(n=n, cfg=sc["cfg"], workers=sc["workers"], seed=SEED, corrupt=bool(sc.get("corrupt")),
                faults=[fault_tok(f) for f in sc["faults"]])
    if sc.get("naming"):
        case["naming"] = sc["naming"]
        ctx.count("naming:%s|%s" % tuple(sc["naming"]))
    nf = sum(1 for f in sc["faults"] if f is not None)
    ctx.case(case, nontrivial=nf > 0, kind="schedule:%dfaults" % nf)
    ctx.count("n:%d" % n)
    ctx.count("workers:%d" % sc["workers"])
    ctx.count("cfg:" + sc["cfg"])
    for f in sc["faults"]:
        if f is not None:
            ctx.count("fault:%s:%s" % (f["kind"], f["stage"]))
    tg = lambda clause, **kw: dict(clause=clause, **kw)
    ever_saved = []  # utterances whose save completed, in order, over all invocations so far
    model = parse_model(mout) if mout not in (None, "bad-op") else None
    if mout == "bad-op":
        ctx.mismatch(case, mout, None, "driver rejected the schedule")
    for idx, (f, r) in enumerate(zip(sc["faults"], res)):
        at = dict(case, invocation=idx)
        post = r["post"]
        ev = impl_events(r["events"], sc.get("naming"))
        fired = "fault" in r["events"]
        ctx.count("invocation")
        ctx.count("rc:%s" % (r["rc"] if r["rc"] in (0, 137, "timeout") else "other"))
        if r["rc"] == "timeout":
            ctx.violation(at, "terminates", "timeout", "an invocation terminates", tags=tg("terminates"))
            return
        srcs = [e for e in r["events"] if e.startswith("src ")]
        want_src = os.path.realpath(os.path.join(common.repo_src(), "pydrobert", "speech", "command_line.py"))
        if not srcs or srcs[0][4:] != want_src:
            ctx.mismatch(at, want_src, srcs[:1] + [r["tail"]], "child did not run the working tree under test")
            return
        # ---- oracle -------------------------------------------------------------------------------
        if not fired and r["rc"] != 0:
            why = "recomputed" if r["corrupted"] else "failed"
            ctx.violation(at, 0, [r["rc"], r["tail"]],
                          "an invocation in which no fault was injected exits 0 "
                          "(inputs of utterances already listed were made unreadable: they must not be read again)"
                          if r["corrupted"] else "an invocation in which no fault was injected exits 0",
                          tags=tg("listed_recomputed" if r["corrupted"] else "exit_status", why=why))
        man = post["manifest"] or []
        for u in man:
            i = IDS.index(u) if u in IDS[:n] else None
            if i is None:
                ctx.violation(at, "ids of the map", u, "the manifest lists only utterances of the map", tags=tg("sound", what="foreign"))
            elif post["files"][i][0] != "C":
                ctx.violation(at, "complete, loadable file", post["files"][i][0],
                              "every utterance listed in the manifest has a file that exists and torch.load()s",
                              tags=tg("sound", stage=f["stage"] if f else "none"))
            elif ref is not None and post["files"][i][1] != ref["files"][i][1]:
                ctx.violation(at, "tensor of the uninterrupted run", "different tensor",
                              "every listed utterance's file is byte-identical to the uninterrupted run's",
                              tags=tg("resume_eq", when="listed"))
        ever_saved += [u for (k, u) in ev if k == "post"]
        if ever_saved:
            for u in ever_saved:
                if isinstance(u, int) and IDS[u] not in man and u != ever_saved[-1]:
                    ctx.violation(at, "listed", dict(saved=list(ever_saved), manifest=list(man)),
                                  "every utterance whose save completed, except possibly the last one, is listed in the manifest on disk",
                                  tags=tg("complete_but_inflight", kind=f["kind"] if f else "none"))
                    break
        if r["pre"] is not None:
            for u in (r["pre"]["manifest"] or []):
                if u in IDS[:n]:
                    i = IDS.index(u)
                    if r["pre"]["files"][i][2] != post["files"][i][2]:
                        ctx.violation(at, r["pre"]["files"][i][2], post["files"][i][2],
                                      "files of utterances already listed keep inode, mtime and size over a resumed run",
                                      tags=tg("listed_rewritten"))
                    if ("pre", i) in ev:
                        ctx.violation(at, "no save", "torch.save called for %s" % u,
                                      "utterances already listed are not saved again", tags=tg("listed_rewritten"))
        if post["stray"]:
            ctx.violation(at, [], post["stray"], "the directory holds only <utt>.pt files of the map", tags=tg("stray_files"))
        last = idx == len(res) - 1
        if last and not fired:
            if sorted(man) != sorted(IDS[:n]) and not (n == 0 and not man):
                ctx.violation(at, sorted(IDS[:n]), man, "after resuming to completion the manifest lists every utterance once",
                              tags=tg("complete_at_end"))
            for i in range(n):
                if ref is not None and (post["files"][i][0] != "C" or post["files"][i][1] != ref["files"][i][1]):
                    ctx.violation(at, "byte-identical to the uninterrupted run", dict(utt=IDS[i], status=post["files"][i][0]),
                                  "after resuming to completion every file is byte-identical to an uninterrupted run with the same --seed",
                                  tags=tg("resume_eq", when="end"))
                    break
        # ---- correspondence with the Lean model ---------------------------------------------------
        if model is None or idx >= len(model):
            continue
        mtrace, mfiles, mman, malive = model[idx]
        ifiles, iman = impl_view(post, n, ref)
        if (mfiles, mman) != (ifiles, iman):
            ctx.mismatch(at, [mfiles, mman], [ifiles, iman], "files (Absent/Partial/Complete key) and manifest after the invocation")
        elif model_events(mtrace) != ev:
            ctx.mismatch(at, model_events(mtrace), ev, "observable events (save entered / returned, line written / flushed) of the invocation")
        elif malive != "dead":
            ctx.mismatch(at, malive, "dead", "model process still alive at the end of an invocation")
        ctx.corr_lines += 1


def digest_dir(snap, n):
    return [snap["files"][i][:2] for i in range(n)], snap["manifest"], snap["stray"]


def run(ctx, driver):
    scs = schedules(ctx)
    refs, sweep = reference_jobs(scs, ctx.tier)
    root = tempfile.mkdtemp(prefix="c10-", dir="/tmp")
    try:
        outs = driver.run([model_line(s) for s in scs])
        ctx.count("correspondence_lines", len(scs))
        with concurrent.futures.ThreadPoolExecutor(max_workers=8) as ex:
            ref_f = {key: ex.submit(run_schedule, root, dict(n=key[0], cfg=key[1], workers=0, faults=[None]))
                     for key in refs}
            sweep_f = {key: ex.submit(run_schedule, root, dict(n=key[0], cfg=key[1], workers=key[2], faults=[None]))
                       for key in sweep}
            sc_f = [ex.submit(run_schedule, root, s) for s in scs]
            ref = {}
            for key, fu in ref_f.items():
                r = fu.result()[0]
                n, cfg = key
                case = dict(n=n, cfg=cfg, workers=0, seed=SEED, faults=["none"])
                ctx.case(case, nontrivial=False, kind="reference")
                ctx.count("invocation")
                snap = r["post"]
                bad = r["rc"] != 0 or any(snap["files"][i][0] != "C" for i in range(n)) or \
                    sorted(snap["manifest"] or []) != sorted(IDS[:n]) or snap["stray"]
                if bad:
                    ctx.violation(case, "exit 0, every file complete, every utterance listed",
                                  dict(rc=r["rc"], files=[snap["files"][i][0] for i in range(n)], manifest=snap["manifest"], tail=r["tail"]),
                                  "an uninterrupted run completes", tags=dict(clause="uninterrupted"))
                    ref[key] = None
                else:
                    ref[key] = snap
                    if (snap["manifest"] or []) != IDS[:n]:
                        ctx.mismatch(case, IDS[:n], snap["manifest"], "manifest order of an uninterrupted run")
            for key, fu in sweep_f.items():
                n, cfg, w = key
                r = fu.result()[0]
                case = dict(n=n, cfg=cfg, workers=w, seed=SEED, faults=["none"])
                ctx.case(case, nontrivial=True, kind="workers_sweep")
                ctx.count("invocation")
                ctx.count("workers:%d" % w)
                if ref.get((n, cfg)) is None:
                    continue
                if r["rc"] != 0 or digest_dir(r["post"], n) != digest_dir(ref[(n, cfg)], n):
                    ctx.violation(case, "directory and manifest identical to --num-workers 0",
                                  dict(rc=r["rc"], files=[r["post"]["files"][i][0] for i in range(n)], manifest=r["post"]["manifest"], tail=r["tail"]),
                                  "--num-workers 0/1/2/3 give identical directories", tags=dict(clause="workers"))
            for s, fu, mout in zip(scs, sc_f, outs):
                if ctx.out_of_time():
                    ctx.note("time budget reached")
                    for g in sc_f:
                        g.cancel()
                    break
                check_schedule(ctx, s, fu.result(), ref.get((s["n"], s["cfg"])), mout)
        ctx.extra["exhaustive"] = False
        if ctx.tier == "thorough":
            ctx.note("every single fault (n in 1..5, k in 1..n, 5 stages, hard/soft) was run")
    finally:
        shutil.rmtree(root, ignore_errors=True)


# ---- replay ----------------------------------------------------------------------------------------


def replay(rp):
    case = rp.get("case", {})
    print(common.canon(case))
    if "faults" not in case or "n" not in case:
        print("oracle:", rp.get("oracle"), "expected", rp.get("expected"), "got", rp.get("got"))
        return 0
    faults = []
    for t in case["faults"]:
        if t == "none":
            faults.append(None)
        else:
            h, k, stage = t.split(":")
            faults.append(F("hard" if h == "h" else "soft", int(k), stage))
    sc = dict(n=case["n"], cfg=case.get("cfg", "raw"), workers=case.get("workers", 0), faults=faults,
              corrupt=case.get("corrupt", False))
    if case.get("naming"):
        sc["naming"] = case["naming"]
    root = tempfile.mkdtemp(prefix="c10-replay-", dir="/tmp")
    try:
        ref = run_schedule(root, dict(n=sc["n"], cfg=sc["cfg"], workers=0, faults=[None]))[0]["post"]
        res = run_schedule(root, sc)
    finally:
        shutil.rmtree(root, ignore_errors=True)
    mout = common.Driver(PROP).run([model_line(sc)])[0]
    model = parse_model(mout) if mout != "bad-op" else []
    for idx, r in enumerate(res):
        files, man = impl_view(r["post"], sc["n"], ref)
        print("invocation %d fault=%s rc=%s" % (idx, fault_tok(faults[idx]), r["rc"]))
        print("  impl : files=%s manifest=%s events=%s" % (files, man, impl_events(r["events"], sc.get("naming"))))
        if r["tail"]:
            print("  impl output tail:", r["tail"].replace("\n", " | ")[-300:])
        if idx < len(model):
            print("  model: files=%s manifest=%s events=%s" % (model[idx][1], model[idx][2], model_events(model[idx][0])))
    ctx = common.Ctx(PROP, "quick", 0, 600)
    check_schedule(ctx, sc, res, ref, mout)
    for v in ctx.violations:
        print("oracle VIOLATED:", v["oracle"], "| expected", v["expected"], "| got", v["got"], "| at invocation", v["case"].get("invocation"))
    if not ctx.violations:
        print("oracle: holds on this schedule now")
    for m in ctx.mismatches:
        print("model/impl mismatch:", m["what"], m["model"], m["impl"])
    print("recorded oracle:", rp.get("oracle"), "expected", rp.get("expected"), "got", rp.get("got"))
    return 0

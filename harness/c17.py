"""C17 - saved normalisation statistics reload to the same transform."""
import os
import re
import shutil
import tempfile
import warnings
import zipfile

import numpy as np

from . import common
from . import c16

PROP = "C17"
MODULES = ["PdsVerif.Props.StatsValidTie", "PdsVerif.Props.StatsSaveTie", "PdsVerif.Props.C17"]
MODEL_MODULES = ["PdsVerif.Model.Standardize", "PdsVerif.Model.StandardizeDrv"]
REQUIRED = [
    "PdsVerif.C17." + n
    for n in """valid_of_accumulated reload_npy reload_raw reload_npz reload_raw_of_accumulated resave_ok
    npz_keeps_others_iff_overwrite_flag npz_keeps_others_iff save_empty reload_same_apply firstUnused_isSome
    validOld_false_of_negative_sum old_resave_fails lookup_upsert_self lookup_upsert_ne""".split()
] + ["PdsVerif.StatsValidTie.valid_eq_gen", "PdsVerif.StatsValidTie.rows_of_flat"] + [
    "PdsVerif.StatsSaveTie." + n for n in ["baseArchive_eq_gen", "firstUnused_eq_gen", "saveNpz_compressed_eq_gen", "save_kind_npy",
                                           "shape_facts"]]


def translate(repo):
    """validity predicate of raw statistics (Standardize._sanitize_stats) -> Generated/StatsValid.lean (Props/StatsValidTie.lean);
    decision logic of Standardize.save (suffix dispatch, load-existing test, key pattern and start, compress test, statement
    order) -> Generated/StatsSave.lean (Props/StatsSaveTie.lean)"""
    from .translate import statssave, statsvalid
    out = dict(statsvalid.generate(repo))
    out.update(statssave.generate(repo))
    return out


RULE = (
    "a case is a sequence of 3-9 operations on ONE path in a fresh temp dir (outside /repo and /verif): accumulate "
    "(vectors / tensors, data with negative sums, large/small scales, small integers; f32/f64), new object, "
    "save(key in {None, named, arr_k}, compress, overwrite), load(key), have_stats, delete, and files written by "
    "'another program' (npz archives with foreign entries incl. arr_k keys; raw files: float32 statistics, odd sizes, "
    "negative sums of squares, non-integer counts, empty). Kind in {npy, npz, raw (4 suffixes)}. After every "
    "successful save the harness reloads and compares apply() on a probe. Distinct by content."
)
TRUSTED = [
    "NumPy's .npy/.npz containers (np.save/np.savez/np.savez_compressed/np.load), ndarray.tofile/np.fromfile and zipfile: "
    "modelled as an array, an association list in dict order + compression flag, and a list of float64 items",
    "the harness' translation of archive key strings to the model's Key (arr_<canonical decimal> vs any other name)",
    "the statistics of a loaded object are observed by saving it to a scratch .npy (public API) and through apply()",
    "little-endian byte re-interpretation float64<->float32 in the driver (Float32.ofBits/toBits), |round(c)-c| <= 1e-8+1e-5|c| for np.isclose",
]
ASSUMPTIONS = [
    "closeRound (np.isclose(np.round(c), c)) accepts every natural number (true for counts < 2^53)",
    "keys '' (read_signal treats it as no key), 'file' and 'allow_pickle' (captured by np.savez's own parameters) are outside the "
    "reload theorem / generator; a key-less load reads arr_0, so after a second default save (stored at arr_1) the new statistics "
    "must be loaded with key='arr_1' - documented behaviour, asserted as such",
    "direction of the overwrite flag is the code's: overwrite=True merges with the existing archive (replacing only the chosen "
    "key), overwrite=False replaces the file by a one-entry archive; the docstring words it the other way round",
    "an EMPTY raw file makes Standardize(rfilename) raise IndexError (reshape gives (2,0)); the docstring promises local "
    "standardisation for an empty file - modelled as it is, outside this property",
    "the path holds a file of its own kind (written by save or a well-formed archive / any byte string for raw)",
    "statistics loaded from a file and then extended by accumulate are covered by correspondence only (valid needs closeRound(c+n))",
    "the float32 re-interpretation heuristic can mis-read foreign float32 statistics files with an even number of columns "
    "(model and implementation agree on this; such files are not produced by save)",
]
LEVEL_TEXT = (
    "Full proof over any linearly ordered field for the repaired code: every accumulated matrix passes the raw-file sanity "
    "predicate (no sign condition), save-then-load is the identity for npy / npz (any key, compress, overwrite, previous "
    "archive; arr_k search proved to terminate within its fuel) / raw, saving again succeeds, other npz entries kept iff "
    "overwrite, empty save -> ValueError, reloaded apply equal; old predicate / old npz branch proved to fail on the witnesses. "
    "Tie: translation (statsvalid.py: validity predicate of raw statistics; statssave.py: save's suffix dispatch, load-existing "
    "test, key pattern / start, compress test, statement order -> Props/StatsValidTie, Props/StatsSaveTie) and "
    "operation-sequence correspondence on real files."
)
LEVEL_NOTE = (
    "Trusted: Lean kernel, std axioms, NumPy file containers as modelled, key-string translation. Needs fix/C17-stats "
    "(2 commits); on the unrepaired tree the check reports the two defects as violations."
)
TECHNIQUE = "Lean 4 proof over an executable save/load model + translator tie (validity predicate and save decision logic regenerated from post.py) + operation-sequence correspondence on real files"

# raw targets include names whose ending only LOOKS like a NumPy suffix: the documented dispatch (and the reader's) is
# case-sensitive, so "stats.NPY" / "stats.Npz" are raw binary files
SUFFIX = {"npy": [".npy"], "npz": [".npz"], "raw": [".bin", "", ".stats", ".dat", ".NPY", ".Npz"]}
ARR_RE = re.compile(r"^arr_(0|[1-9][0-9]*)$")


def post():
    from pydrobert.speech import post as p

    return p


# ---- keys --------------------------------------------------------------------------------------------


def key_wire(k):
    if k is None:
        return "-"
    m = ARR_RE.match(k)
    if m:
        return "a:%s" % m.group(1)
    return "n:%s" % k


def err_name(e):
    n = type(e).__name__
    if isinstance(e, KeyError):
        return "KeyError"
    if isinstance(e, OSError):
        return "IOError"
    return n


# ---- generator -----------------------------------------------------------------------------------------


def gen_call(r, F, mode, dtype):
    if r.random() < 0.04:
        F = F + 1  # a call of another feature dimension: ValueError once statistics exist
    k = r.choice([1, 1, 2, 3, 4, 6]) if mode != "constfrac" else r.choice([3, 7, 10, 30, 53, 64])
    X = c16.gen_data(r, mode, k, F, dtype)
    if k == 1 and r.random() < 0.6:
        spec = dict(idx=[0], other=None, pos=0, axis=-1)
    else:
        rank = r.choice([2, 2, 3])
        other = c16.factorizations(r, k, rank - 1)
        pos = r.randrange(rank)
        spec = dict(idx=list(range(k)), other=other, pos=pos, axis=pos if r.random() < 0.5 else pos - rank)
    return dict(X=X.tolist(), spec=spec)


KEYS = [None, None, None, "stats", "a", "b", "arr_0", "arr_1", "arr_3", "arr_01", "x.y", "0", "7", "1089"]   # names made of digits are names


def gen_foreign_raw(r, F):
    """bytes some other program left at the path"""
    u = r.random()
    n = F + 1
    sums = [r.uniform(-50, 50) for _ in range(F)]
    cnt = float(r.randint(1, 40))
    sq = [abs(s) * r.uniform(1, 3) + 1 for s in sums]
    m = np.array([sums + [cnt], sq + [0.0]])
    if u < 0.3:
        return "f32stats", m.astype(np.float32).tobytes()
    if u < 0.45:
        return "f64stats", m.tobytes()
    if u < 0.6:
        m[1, r.randrange(F)] *= -1
        return "negsq", m.tobytes()
    if u < 0.7:
        m[0, -1] = cnt + 0.37
        return "fraccount", m.tobytes()
    if u < 0.8:
        return "odd", m.ravel()[:-1].tobytes()
    if u < 0.9:
        return "empty", b""
    return "tail", m.tobytes() + b"\x01\x02\x03"


def gen_case(r):
    kind = r.choice(["npy", "npz", "npz", "raw", "raw"])
    mode = r.choice(["int", "neg", "neg", "large", "small", "mixed", "constfrac"])
    dtype = r.choice(["f64", "f64", "f32"])
    F = r.choice([1, 2, 3, 4, 5])
    nv = r.random() < 0.6
    ops = []
    u = r.random()
    if kind == "npz" and u < 0.45:
        ks = r.sample(["a", "b", "stats", "arr_0", "arr_1", "arr_2", "arr_5", "zz"], r.randint(1, 4))
        ops.append(dict(op="P", entries=[[k, r.randint(1, 9)] for k in ks]))
    elif kind == "raw" and u < 0.45:
        what, b = gen_foreign_raw(r, F)
        ops.append(dict(op="W", what=what, hex=b.hex()))
        ops.append(dict(op="L", key=None))
    if r.random() < 0.1:
        ops.append(dict(op="S", key=r.choice(KEYS), compress=r.random() < 0.5, overwrite=r.random() < 0.6))
    ops.append(dict(op="A", call=gen_call(r, F, mode, dtype)))
    last_key = None
    for _ in range(r.randint(2, 7)):
        u = r.random()
        if u < 0.3:
            ops.append(dict(op="A", call=gen_call(r, F, mode, dtype)))
        elif u < 0.7:
            k = r.choice(KEYS)
            ops.append(dict(op="S", key=k, compress=r.random() < 0.5, overwrite=r.random() < 0.6))
            last_key = k
        elif u < 0.85:
            ops.append(dict(op="L", key=r.choice([last_key, last_key, None, "nope", "arr_0", "arr_1"])))
        elif u < 0.9:
            ops.append(dict(op="N"))
        elif u < 0.95:
            ops.append(dict(op="H"))
        else:
            ops.append(dict(op="D"))
    if not any(o["op"] == "S" for o in ops):
        ops.append(dict(op="S", key=r.choice(KEYS), compress=r.random() < 0.5, overwrite=True))
    ops.append(dict(op="L", key=last_key))
    probe = c16.gen_data(r, mode, r.choice([1, 2, 4]), F, "f64").tolist()
    return dict(kind=kind, suffix=r.choice(SUFFIX[kind]), mode=mode, dtype=dtype, F=F, nv=nv, ops=ops, probe=probe)


def corpus():
    cs = []
    neg = dict(X=[[-11.5, 2.0], [-9.25, 3.0]], spec=dict(idx=[0, 1], other=[2], pos=1, axis=-1))
    more = dict(X=[[-20.0, 1.0]], spec=dict(idx=[0], other=None, pos=0, axis=-1))
    for kind, suf in (("raw", ".bin"), ("raw", ""), ("npy", ".npy"), ("npz", ".npz"), ("raw", ".NPY"), ("raw", ".nPz")):
        cs.append(dict(kind=kind, suffix=suf, mode="neg", dtype="f64", F=2, nv=True, probe=[[-10.0, 2.5]],
                       ops=[dict(op="S", key=None, compress=False, overwrite=True), dict(op="A", call=neg),
                            dict(op="S", key=None, compress=False, overwrite=True), dict(op="L", key=None),
                            dict(op="A", call=more), dict(op="S", key=None, compress=True, overwrite=True),
                            dict(op="L", key=None), dict(op="L", key="arr_1"),
                            dict(op="S", key="stats", compress=False, overwrite=False), dict(op="L", key="stats"),
                            dict(op="L", key=None)]))
    # a reloaded object saved back onto the file it was loaded from, then reloaded (the loader must not keep the file
    # open / mapped), for every kind of target; and archive keys that consist of digits
    for kind, suf in (("npy", ".npy"), ("raw", ".bin"), ("npz", ".npz")):
        cs.append(dict(kind=kind, suffix=suf, mode="neg", dtype="f64", F=2, nv=True, probe=[[-10.0, 2.5]],
                       ops=[dict(op="A", call=neg), dict(op="S", key=None, compress=False, overwrite=True), dict(op="L", key=None),
                            dict(op="S", key=None, compress=False, overwrite=False), dict(op="L", key=None),
                            dict(op="S", key=None, compress=False, overwrite=False), dict(op="L", key=None)]))
    cs.append(dict(kind="npz", suffix=".npz", mode="int", dtype="f64", F=2, nv=True, probe=[[1.0, 2.0]],
                   ops=[dict(op="A", call=neg), dict(op="S", key="1089", compress=False, overwrite=True), dict(op="L", key="1089"),
                        dict(op="A", call=more), dict(op="S", key="0", compress=True, overwrite=True), dict(op="L", key="0"),
                        dict(op="S", key=None, compress=False, overwrite=True), dict(op="L", key="0"), dict(op="L", key=None),
                        dict(op="L", key="1089")]))
    cs.append(dict(kind="npz", suffix=".npz", mode="int", dtype="f64", F=2, nv=False, probe=[[1.0, 2.0]],
                   ops=[dict(op="P", entries=[["arr_0", 3], ["b", 4], ["arr_2", 5]]), dict(op="A", call=neg),
                        dict(op="S", key=None, compress=True, overwrite=True), dict(op="L", key="arr_1"),
                        dict(op="S", key="b", compress=False, overwrite=True), dict(op="L", key="b"),
                        dict(op="L", key="arr_0"), dict(op="S", key=None, compress=False, overwrite=False),
                        dict(op="L", key=None)]))
    # a second writer between two saves of ONE unchanged object: the path is overwritten by another program (valid foreign
    # statistics for raw targets, a foreign archive for .npz, garbage for .npy), then the object is saved again with the very
    # same arguments - the file must again hold ITS statistics
    foreign = np.array([[5.0, -3.0, 4.0], [30.0, 9.0, 0.0]]).tobytes()
    for kind, suf in (("raw", ".bin"), ("raw", ""), ("npy", ".npy"), ("npz", ".npz")):
        other = dict(op="P", entries=[["arr_0", 3], ["b", 4]]) if kind == "npz" else dict(op="W", what="second_writer", hex=foreign.hex())
        for comp in ((False, True) if kind == "npz" else (False,)):
            cs.append(dict(kind=kind, suffix=suf, mode="neg", dtype="f64", F=2, nv=True, probe=[[-10.0, 2.5]],
                           ops=[dict(op="A", call=neg), dict(op="S", key=None, compress=comp, overwrite=True), dict(op="L", key=None),
                                other, dict(op="S", key=None, compress=comp, overwrite=True), dict(op="L", key=None)]))
    return cs


# ---- implementation side ----------------------------------------------------------------------------------


def npz_state(path):
    """(ordered key list, {key: array}, compressed?) of the archive, or None"""
    if not os.path.exists(path):
        return None
    with np.load(path) as z:
        keys = list(z.files)
        arrays = {k: z[k] for k in keys}
    with zipfile.ZipFile(path) as zf:
        comp = [i.compress_type != zipfile.ZIP_STORED for i in zf.infolist()]
    return keys, arrays, comp


def show_keys(keys, arrays):
    return ",".join("%s=%s" % (key_wire(k), ".".join(str(d) for d in arrays[k].shape)) for k in keys)


def file_bytes(path):
    try:
        with open(path, "rb") as f:
            return f.read()
    except FileNotFoundError:
        return None


def observe_stats(s, tmpdir):
    if not s.have_stats:
        return None
    obs = os.path.join(tmpdir, "observe.npy")
    s.save(obs)
    m = np.load(obs)
    os.remove(obs)
    return m


def load_kwargs(kind, key):
    kw = {}
    if kind == "raw":
        kw["force_as"] = "file"
    if kind == "npz" and key is not None:
        kw["key"] = key
    return kw


def run_impl(ctx, case, tmpdir):
    """a fixed share of the cases is run from inside the scratch directory with BARE file names ("stats.npy", "stats" -
    no directory part at all), the way a script saves next to itself"""
    if (len(case["ops"]) + case["F"]) % 3 != 0:
        return _run_impl(ctx, case, tmpdir)
    ctx.count("bare_file_name")
    cwd = os.getcwd()
    os.chdir(tmpdir)
    try:
        return _run_impl(ctx, case, "")     # os.path.join("", name) == name
    finally:
        os.chdir(cwd)


def _run_impl(ctx, case, tmpdir):
    """executes the sequence on the implementation; returns (result tokens, wire ops); runs the oracle"""
    p = post()
    kind, F, nv = case["kind"], case["F"], case["nv"]
    path = os.path.join(tmpdir, "stats" + case["suffix"])
    s = p.Standardize(norm_var=nv)
    res = []
    wire = []
    scale = 1.0
    probe0 = np.array(case["probe"], dtype=np.float64)
    probe = probe0
    cslim = case
    for n_op, o in enumerate(case["ops"]):
        ctx.count("op_" + o["op"])
        if o["op"] == "A":
            X = np.array(o["call"]["X"], dtype=np.float64)
            a = c16.build_array(X, o["call"]["spec"], case["dtype"])
            scale += float(np.abs(X).sum() + (X ** 2).sum())
            wire.append("A " + c16.wire_call(a, case["dtype"], o["call"]["spec"]["axis"]))
            had = bool(s.have_stats)
            try:
                s.accumulate(a, axis=o["call"]["spec"]["axis"])
                if not had:
                    # the first call fixes the feature dimension; probe with that dimension
                    probe = np.resize(probe0, (probe0.shape[0], X.shape[1]))
            except Exception as e:
                res.append(("A", "err:" + err_name(e)))
        elif o["op"] == "N":
            wire.append("N")
            s = p.Standardize(norm_var=nv)
        elif o["op"] == "H":
            wire.append("H")
            res.append(("H", "1" if s.have_stats else "0"))
        elif o["op"] == "D":
            wire.append("D")
            if os.path.exists(path):
                os.remove(path)
        elif o["op"] == "P":
            wire.append("P %d %s" % (len(o["entries"]), " ".join("%s %d" % (key_wire(k), i) for k, i in o["entries"])))
            np.savez(path, **{k: np.array([float(i)]) for k, i in o["entries"]})
        elif o["op"] == "W":
            b = bytes.fromhex(o["hex"])
            with open(path, "wb") as f:
                f.write(b)
            items = np.frombuffer(b[: len(b) // 8 * 8], dtype="<f8")
            wire.append("W %d %s" % (len(items), " ".join(common.fbits(v) for v in items)))
            ctx.count("foreign_" + o["what"])
        elif o["op"] == "S":
            key, comp, ow = o["key"], o["compress"], o["overwrite"]
            wire.append("S %s %d %d" % (key_wire(key), comp, ow))
            before_bytes = file_bytes(path)
            before = npz_state(path) if kind == "npz" else None
            had = bool(s.have_stats)
            try:
                with warnings.catch_warnings():
                    warnings.simplefilter("ignore")
                    s.save(path, key=key, compress=comp, overwrite=ow)
                err = None
            except Exception as e:
                err = e
            tagbase = dict(kind=kind, existing=before_bytes is not None, overwrite=bool(ow), key=key_wire(key)[:1])
            if not had:
                # save with no statistics raises ValueError and leaves the path alone
                if not isinstance(err, ValueError) or file_bytes(path) != before_bytes:
                    ctx.violation(dict(cslim, at=n_op), "ValueError, file untouched", "ok" if err is None else err_name(err),
                                  "save with no accumulated statistics raises ValueError", tags=dict(tagbase, clause="save_empty"))
                res.append(("S", "err:" + (err_name(err) if err else "none")))
                continue
            if err is not None:
                ctx.violation(dict(cslim, at=n_op), "save succeeds", "%s: %s" % (err_name(err), str(err)[:80]),
                              "saving (again) to a path of this kind succeeds", tags=dict(tagbase, clause="resave"))
                res.append(("S", "err:" + err_name(err)))
                continue
            if kind != "npz":
                res.append(("S", "ok"))
                chosen = None
            else:
                keys, arrays, compl = npz_state(path)
                if key is not None:
                    chosen = key
                elif not ow or before is None:
                    chosen = keys[0] if len(keys) == 1 else None
                else:
                    new = [k for k in keys if k not in before[0]]
                    chosen = new[0] if len(new) == 1 else None
                if chosen is None:
                    ctx.violation(dict(cslim, at=n_op), "exactly one new key", keys, "save(key=None) stores at one unused arr_k key",
                                  tags=dict(tagbase, clause="npz_key"))
                    res.append(("S", "ok ? ? " + show_keys(keys, arrays)))
                    continue
                if key is None and (before is None or not ow) and chosen != "arr_0":
                    ctx.violation(dict(cslim, at=n_op), "arr_0", chosen,
                                  "save(key=None) to a fresh / replaced archive stores at arr_0, the entry a key-less load reads",
                                  tags=dict(tagbase, clause="npz_default_key"))
                if key is None and not ARR_RE.match(chosen):
                    ctx.violation(dict(cslim, at=n_op), "arr_<k>", chosen, "automatic key has the pattern arr_<k>",
                                  tags=dict(tagbase, clause="npz_key"))
                if any(c != bool(comp) for c in compl):
                    ctx.violation(dict(cslim, at=n_op), bool(comp), compl, "compress flag decides savez_compressed vs savez",
                                  tags=dict(tagbase, clause="compress"))
                # other entries kept iff overwrite
                if before is not None:
                    for k in before[0]:
                        if k == chosen:
                            continue
                        kept = k in arrays and np.array_equal(arrays[k], before[1][k])
                        if kept != bool(ow):
                            ctx.violation(dict(cslim, at=n_op), "kept" if ow else "dropped", "kept" if kept else "dropped/changed",
                                          "other entries of the archive are kept iff the overwrite flag is set",
                                          tags=dict(tagbase, clause="npz_others"))
                            break
                res.append(("S", "ok %s %d %s" % (key_wire(chosen), 1 if all(compl) and compl else 0, show_keys(keys, arrays))))
            # ---- oracle: reload gives the identical transform
            oracle_reload(ctx, cslim, n_op, s, path, kind, chosen, nv, probe, tagbase)
        elif o["op"] == "L":
            key = o["key"] if kind == "npz" else None
            wire.append("L %s" % key_wire(key))
            try:
                with warnings.catch_warnings():
                    warnings.simplefilter("ignore")
                    s2 = p.Standardize(path, norm_var=nv, **load_kwargs(kind, key))
                m = observe_stats(s2, tmpdir)
                res.append(("L", "ok", m))
            except Exception as e:
                res.append(("L", "err:" + err_name(e)))
                ctx.count("load_" + err_name(e))
    return res, wire, scale


def oracle_reload(ctx, case, n_op, s, path, kind, chosen, nv, probe, tagbase):
    p = post()
    variants = [load_kwargs(kind, chosen)]
    if kind == "npz" and chosen == "arr_0":
        variants.append({})  # key-less load reads arr_0
    for kw in variants:
        try:
            with warnings.catch_warnings():
                warnings.simplefilter("ignore")
                s2 = p.Standardize(path, norm_var=nv, **kw)
                with np.errstate(all="ignore"):
                    y1 = s.apply(probe)
                    y2 = s2.apply(probe)
        except Exception as e:
            ctx.violation(dict(case, at=n_op), "reload succeeds", "%s: %s" % (err_name(e), str(e)[:80]),
                          "statistics written by save load again through Standardize(rfilename)",
                          tags=dict(tagbase, clause="reload"))
            return
        # all three containers store the float64 matrix bit for bit, so the transforms must be identical
        if not np.array_equal(y1, y2, equal_nan=True):
            ctx.violation(dict(case, at=n_op), y1.ravel().tolist()[:6], y2.ravel().tolist()[:6],
                          "reloaded statistics give an identical apply()", tags=dict(tagbase, clause="reload_apply"))
            return
    # "saving again succeeds": a RELOADED object saved back onto the very file it was loaded from (on a copy of the file,
    # so the history under test is not disturbed), then loaded once more, is still the same transform - the loader may
    # not keep the file open or mapped
    import shutil as _sh
    root, ext = os.path.splitext(path)
    cp = root + "_resave" + ext
    try:
        _sh.copyfile(path, cp)
        kw = variants[0]
        with warnings.catch_warnings():
            warnings.simplefilter("ignore")
            a = p.Standardize(cp, norm_var=nv, **kw)
            a.save(cp, **({"key": chosen} if kind == "npz" and chosen is not None else {}))
            b = p.Standardize(cp, norm_var=nv, **kw)
            with np.errstate(all="ignore"):
                y3 = b.apply(probe)
        if not np.array_equal(y1, y3, equal_nan=True):
            ctx.violation(dict(case, at=n_op, history="load, save onto the same file, load"), y1.ravel().tolist()[:6], y3.ravel().tolist()[:6],
                          "a reloaded object saved back onto its own file reloads to the same transform",
                          tags=dict(tagbase, clause="resave_onto_loaded_file"))
    except Exception as e:
        ctx.violation(dict(case, at=n_op, history="load, save onto the same file, load"), "succeeds", "%s: %s" % (err_name(e), str(e)[:80]),
                      "a reloaded object can be saved back onto its own file and loaded again",
                      tags=dict(tagbase, clause="resave_onto_loaded_file_raises"))
    finally:
        if os.path.exists(cp):
            os.remove(cp)


# ---- correspondence ------------------------------------------------------------------------------------------


def compare(ctx, case, res, out, scale):
    pieces = [t.strip() for t in out.split(" ; ")] if out.strip() else []
    if len(pieces) != len(res):
        ctx.mismatch(case, out[:300], [r[:2] for r in res], "number of observable results")
        return
    exact = case["mode"] == "int"
    for r, m in zip(res, pieces):
        tag = r[0]
        if not m.startswith(tag + ":"):
            ctx.mismatch(case, m[:200], r[:2], "result kind")
            return
        body = m[len(tag) + 1 :]
        if tag in ("A", "H"):
            if body != r[1]:
                ctx.mismatch(case, m, r[:2], "accumulate error / have_stats")
                return
        elif tag == "S":
            if body != r[1]:
                ctx.mismatch(case, m, r[1], "save: outcome, key used, compression flag, archive keys (in order) and shapes")
                return
        else:  # L
            if r[1] != "ok":
                if body != r[1]:
                    ctx.mismatch(case, m[:200], r[1], "load: exception class")
                    return
                continue
            if not body.startswith("ok "):
                ctx.mismatch(case, m[:200], "ok", "load: model raised, implementation loaded")
                return
            parts = body[3:].split("|")
            head = parts[0].split()
            F = int(head[0])
            cnt = common.bits_to_float(head[1])
            sums = [common.bits_to_float(t) for t in parts[1].split()]
            sqs = [common.bits_to_float(t) for t in parts[2].split()]
            pad = common.bits_to_float(parts[3].split()[0])
            mm = np.array([sums + [cnt], sqs + [pad]])
            im = r[2]
            if im is None:
                if cnt != 0:
                    ctx.mismatch(case, m[:200], "no statistics", "load: loaded object has no statistics")
                    return
                continue
            ok = im.shape == mm.shape
            if ok:
                for a, b in zip(im.ravel(), mm.ravel()):
                    if exact:
                        ok &= float(a) == float(b)
                    else:
                        ok &= common.close(float(a), float(b), rel=1e-12, abs_=1e-12 * scale)
            if not ok:
                ctx.mismatch(case, mm.tolist(), im.tolist(), "load: statistics matrix of the loaded object")
                return


def eval_case(ctx, case, root):
    tmpdir = tempfile.mkdtemp(prefix="seq_", dir=root)
    try:
        res, wire, scale = run_impl(ctx, case, tmpdir)
    finally:
        shutil.rmtree(tmpdir, ignore_errors=True)
    line = "seq %s %d %s" % (case["kind"], len(wire), " ".join(wire))
    return res, line, scale


def run(ctx, driver):
    r = ctx.rng
    n = ctx.scale(1000, 25000)
    root = tempfile.mkdtemp(prefix="pds_c17_", dir="/tmp")
    todo = []
    try:
        cases = corpus()
        for i in range(n):
            cases.append(gen_case(r))
        for case in cases:
            if ctx.out_of_time():
                ctx.note("out of time")
                break
            ctx.case(dict(kind=case["kind"], suffix=case["suffix"], mode=case["mode"], dtype=case["dtype"], F=case["F"],
                          ops="".join(o["op"] for o in case["ops"]),
                          keys=[o.get("key") for o in case["ops"] if o["op"] == "S"],
                          flags=[[o["compress"], o["overwrite"]] for o in case["ops"] if o["op"] == "S"],
                          x0=[o["call"]["X"][0] for o in case["ops"] if o["op"] == "A"][:2]), kind=case["kind"])
            ctx.count("mode_" + case["mode"])
            res, line, scale = eval_case(ctx, case, root)
            todo.append((case, res, line, scale))
        # the '' key: read_signal treats it as "no key" -> outside the reload theorem's hypothesis
        ctx.gap_cases += gap_empty_key(ctx, root)
    finally:
        shutil.rmtree(root, ignore_errors=True)
    outs = driver.run([t[2] for t in todo])
    ctx.corr_lines += len(todo)
    ctx.count("correspondence_lines", len(todo))
    for (case, res, line, scale), out in zip(todo, outs):
        if out == "bad-op":
            ctx.mismatch(case, out, [x[:2] for x in res], "driver rejected the sequence")
            continue
        compare(ctx, case, res, out, scale)


def gap_empty_key(ctx, root):
    """key='' is stored under '' but loaded as arr_0 (documented `if key:`): counted, not judged"""
    p = post()
    d = tempfile.mkdtemp(prefix="gap_", dir=root)
    try:
        s = p.Standardize()
        s.accumulate(np.array([1.0, -2.0]))
        path = os.path.join(d, "g.npz")
        s.save(path, key="")
        try:
            p.Standardize(path, key="")
            ctx.count("empty_key_loaded")
        except Exception as e:
            ctx.count("empty_key_" + err_name(e))
    finally:
        shutil.rmtree(d, ignore_errors=True)
    return 1


def replay(rp):
    case = rp.get("case", {})
    print(common.canon({k: v for k, v in case.items() if k != "ops"})[:600])
    if "ops" not in case:
        print("oracle:", rp.get("oracle"), "expected", rp.get("expected"), "got", rp.get("got"))
        return 0
    for i, o in enumerate(case["ops"]):
        print("  op %d: %s" % (i, common.canon(o)[:200]))
    case = {k: v for k, v in case.items() if k != "at"}
    ctx = common.Ctx(PROP, "quick", 0, 600)
    root = tempfile.mkdtemp(prefix="pds_c17_", dir="/tmp")
    try:
        res, line, scale = eval_case(ctx, case, root)
    finally:
        shutil.rmtree(root, ignore_errors=True)
    print("impl:", [x[:2] if len(x) < 3 else (x[0], x[1], None if x[2] is None else x[2].tolist()) for x in res])
    try:
        out = common.Driver(PROP).run([line])[0]
        print("model:", out[:1500])
        compare(ctx, case, res, out, scale)
    except Exception as e:
        print("model: unavailable (%s)" % e)
    print("oracle:", rp.get("oracle"), "| expected", rp.get("expected"), "| got", rp.get("got"))
    print("re-run: %d oracle violations, %d model mismatches" % (len(ctx.violations), len(ctx.mismatches)))
    for v in ctx.violations[:3]:
        print("  violation:", v["oracle"], v["tags"], "expected", v["expected"], "got", v["got"])
    return 1 if ctx.violations else 0

"""Shared by C01 / C02 / C04 / C14: driving the real STFT computer through tracer components and
the Lean STFT model through the line protocol."""
import numpy as np

from . import common


def sig(u, n):
    """integer test signal of utterance `u` (positive, position- and utterance-dependent)."""
    i = np.arange(n)
    return (1 + (i * 7 + u * 13 + (i * i) % 5) % 41).astype(np.float64)


def window_taps(kind, L, seed=0):
    if kind == "ones":
        return [1] * L
    if kind == "ramp":
        return list(range(1, L + 1))
    if kind == "pow":
        return [(3 * i * i + 2 * i + 1 + seed) % 17 + 1 for i in range(L)]
    if kind.startswith("hot"):
        j = int(kind[3:])
        return [1 if i == j else 0 for i in range(L)]
    raise ValueError(kind)


def make_dc_computer(L, S, centered, kaldi, taps, rate=1000.0):
    from pydrobert.speech.compute import STFTFrameComputer
    from .tracers import DCBank, IntWindow

    c = STFTFrameComputer(
        DCBank(rate=rate),
        frame_length_ms=L * 1000.0 / rate,
        frame_shift_ms=S * 1000.0 / rate,
        frame_style="centered" if centered else "causal",
        kaldi_shift=kaldi,
        window_function=IntWindow(taps=taps),
        use_log=False,
        use_power=False,
        pad_to_nearest_power_of_two=False,
    )
    if c.frame_length != L or c.frame_shift != S:
        raise RuntimeError("frame params %s %s vs %s %s" % (c.frame_length, c.frame_shift, L, S))
    return c


def as_int_rows(a):
    """2*|sum| coefficients -> list of ints (sum); None if not integral."""
    a = np.asarray(a, dtype=np.float64)
    if a.ndim != 2:
        return None
    v = a[:, 0] / 2.0 if a.shape[1] else np.zeros(0)
    r = np.rint(v)
    if a.size and np.max(np.abs(v - r)) > 1e-6:
        return None
    return [int(t) for t in r]


def ops_line(L, S, centered, kaldi, ops):
    return "stft %d %d %d %d %s" % (L, S, int(centered), int(kaldi), " ".join(ops))


def run_ops_impl(comp, ops, readonly=True, same_signal=False):
    """Execute an op history on the real computer. Returns list of (kind, value) per op where value is
    a 2-D array or the exception class name; plus the `started` flag after each op."""
    outs = []
    utt = 0
    off = 0
    nF = 0
    for op in ops:
        k = op[0]
        try:
            if k == "c":
                n = int(op[1:])
                x = sig(0 if same_signal else utt, off + n)[off:]
                x = np.ascontiguousarray(x)
                if readonly:
                    x.setflags(write=False)
                keep = x.copy()
                r = comp.compute_chunk(x)
                if not np.array_equal(keep, x):
                    r = "MODIFIED-INPUT"
                # the chunk array is the caller's: it is reused for something else as soon as the call returns, so a
                # computer that kept a view of it instead of a copy computes its next frames from garbage
                x.setflags(write=True)
                x[...] = 12345.0
                off += n
            elif k == "z":
                r = comp.finalize()
                utt += 1
                off = 0
            elif k == "F":
                n = int(op[1:])
                x = sig(0 if same_signal else 1000 + nF, n)
                nF += 1
                if readonly:
                    x.setflags(write=False)
                r = comp.compute_full(x)
            elif k == "B":
                from pydrobert.speech.compute import frame_by_frame_calculation

                n, cs = op[1:].split(":")
                x = sig(0 if same_signal else 1000 + nF, int(n))
                nF += 1
                if readonly:
                    x.setflags(write=False)
                started = comp.started
                r = frame_by_frame_calculation(comp, x, int(cs))
                if not started:
                    utt += 1
                    off = 0
            else:
                raise RuntimeError(op)
        except ValueError as e:
            r = "ValueError"
        except Exception as e:  # anything else is reported by class
            r = type(e).__name__
        outs.append((r, bool(comp.started)))
    return outs


def expected_from_model(model_out, ops, taps, same_signal=False, with_started=False):
    """Turn the driver's answer (frames of source indices per op) into expected integer sums."""
    parts = model_out.split(";")
    if len(parts) != len(ops):
        return None
    res = []
    utt = 0
    nF = 0
    maxoff = {}
    # signals must be long enough: recompute lengths per utterance lazily
    started = []
    for op, part in zip(ops, parts):
        part, _, st = part.partition("/")
        started.append(st == "1")
        k = op[0]
        if k in "FB":
            u = 1000 + nF
            nF += 1
        else:
            u = utt
        if part == "E":
            res.append("ValueError")
        else:
            frames = [] if part == "-" else [[int(t) for t in f.split(",")] for f in part.split("|")]
            mx = max([max(f) for f in frames if f], default=-1)
            x = sig(0 if same_signal else u, mx + 1)
            res.append([int(sum(w * x[i] for w, i in zip(taps, f))) for f in frames])
        if k == "z" or (k == "B" and part != "E"):
            utt += 1
    if with_started:
        return res, started
    return res

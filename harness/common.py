"""Shared machinery of the checks: context, Lean build / audit / driver, evidence, known findings.

Everything random derives from one ``random.Random(VERIF_SEED)``.
"""
import fcntl
import hashlib
import json
import os
import random
import re
import subprocess
import sys
import time

VERIF = os.path.dirname(os.path.dirname(os.path.abspath(__file__)))
LEAN = os.path.join(VERIF, "lean")
REPO = os.environ.get("PDS_REPO", "/repo")
GEN_DIR = os.path.join(LEAN, "PdsVerif", "Generated")
GUARD = "PYDROBERT_SPEECH_VERIF"

STD_AXIOMS = {"propext", "Classical.choice", "Quot.sound"}
FORBIDDEN = re.compile(
    r"\bsorry\b|\badmit\b|^\s*axiom\s|native_decide|bv_decide|implemented_by|\bunsafe\s|maxHeartbeats\s+0\b"
)

TRUSTED_BASE_COMMON = [
    "Lean 4.33.0 kernel (thorough tier: re-checked by leanchecker)",
    "axioms: propext, Classical.choice, Quot.sound only (audited by #print axioms on every property theorem; no native_decide, no bv_decide, no axioms of our own, no sorry)",
    "the translator harness/translate/* (Python ast -> Lean) where a generated file is used",
    "the correspondence harness (this run's differential test of the Lean model's executable definitions against the implementation through its public API)",
    "CPython / NumPy semantics of the modelled source lines; IEEE round-off is absent from every theorem",
]


def repo_src():
    return os.path.join(REPO, "src")


def ensure_repo_on_path():
    """Import pydrobert.speech from REPO's *current working tree*."""
    src = repo_src()
    if src not in sys.path:
        sys.path.insert(0, src)
    os.environ[GUARD] = "1"
    import pydrobert.speech  # noqa

    here = os.path.realpath(os.path.dirname(pydrobert.speech.__file__))
    want = os.path.realpath(os.path.join(src, "pydrobert", "speech"))
    if here != want:
        raise RuntimeError("pydrobert.speech imported from %s, expected %s" % (here, want))


class Timeout(Exception):
    pass


def canon(obj):
    return json.dumps(obj, sort_keys=True, default=str)


class Ctx:
    """Collects what a run covered and what it found."""

    def __init__(self, prop, tier, seed, budget_s):
        self.prop = prop
        self.tier = tier
        self.seed = seed
        self.rng = random.Random(seed)
        self.t0 = time.time()
        self.deadline = self.t0 + budget_s
        self.evaluations = 0
        self.distinct = set()
        self.samples = []
        self.hist = {}
        self.violations = []  # property fails on the implementation (oracle)
        self.mismatches = []  # model and implementation disagree
        self.gap_cases = 0  # inside the property's quantifier, outside a theorem's hypotheses
        self.notes = []
        self.corr_lines = 0
        self.search_mode = False  # set when a proof/correspondence broke: search harder
        self.extra = {}

    # ---- bookkeeping -------------------------------------------------------------------
    def scale(self, quick, thorough):
        n = thorough if self.tier == "thorough" else quick
        if self.search_mode and self.tier != "thorough":
            n = max(n, min(thorough, 4 * quick))
        return n

    def out_of_time(self):
        return time.time() > self.deadline

    def case(self, case, nontrivial=True, kind=None):
        """Register one explored case. `case` must be JSON-able."""
        self.evaluations += 1
        self.last_case = case
        if nontrivial:
            h = hashlib.blake2b(canon(case).encode(), digest_size=8).digest()
            self.distinct.add(h)
        if kind is not None:
            self.count(kind)
        if len(self.samples) < 6 or (len(self.samples) < 12 and self.rng.random() < 0.01):
            self.samples.append(case)

    def count(self, key, n=1):
        self.hist[key] = self.hist.get(key, 0) + n

    def violation(self, case, expected, got, oracle, tags=None):
        """The implementation breaks the property's oracle on `case`."""
        # keep a bounded number per distinct tag set, so that many instances of one (possibly known)
        # finding can never crowd out a different violation
        key = canon(tags or {})
        self._per_tag = getattr(self, "_per_tag", {})
        self._per_tag[key] = self._per_tag.get(key, 0) + 1
        if self._per_tag[key] <= 25 and len(self.violations) < 1000:
            self.violations.append(
                dict(case=case, expected=expected, got=got, oracle=oracle, tags=tags or {})
            )
        self.count("oracle_violation")

    def mismatch(self, case, model, impl, what):
        """Model and implementation disagree on `case` (not by itself a violation)."""
        if len(self.mismatches) < 200:
            self.mismatches.append(dict(case=case, model=model, impl=impl, what=what))
        self.count("correspondence_mismatch")

    def note(self, s):
        self.notes.append(s)


# ---- Lean side ---------------------------------------------------------------------------


class Lock:
    def __init__(self):
        self.path = os.path.join(LEAN, ".build.lock")

    def __enter__(self):
        self.f = open(self.path, "w")
        fcntl.flock(self.f, fcntl.LOCK_EX)

    def __exit__(self, *a):
        fcntl.flock(self.f, fcntl.LOCK_UN)
        self.f.close()


def write_if_changed(path, content):
    try:
        if open(path).read() == content:
            return False
    except FileNotFoundError:
        pass
    os.makedirs(os.path.dirname(path), exist_ok=True)
    with open(path, "w") as f:
        f.write(content)
    return True


def lake_build(targets, timeout=3000):
    """Returns (ok, log)."""
    with Lock():
        p = subprocess.run(
            ["lake", "build"] + list(targets),
            cwd=LEAN,
            stdout=subprocess.PIPE,
            stderr=subprocess.STDOUT,
            text=True,
            timeout=timeout,
        )
    return p.returncode == 0, p.stdout


def module_path(mod):
    return os.path.join(LEAN, *mod.split(".")) + ".lean"


def theorems_in(mod):
    """Fully qualified names of every `theorem` in a Props module (namespace-aware, simple)."""
    src = open(module_path(mod)).read()
    src = strip_comments(src)
    ns = []
    names = []
    for line in src.splitlines():
        m = re.match(r"\s*namespace\s+(\S+)", line)
        if m:
            ns.append(m.group(1))
            continue
        m = re.match(r"\s*end\s+(\S+)", line)
        if m and ns and ns[-1] == m.group(1):
            ns.pop()
            continue
        m = re.match(r"\s*(?:@\[[^\]]*\]\s*)?(?:private\s+|protected\s+)?theorem\s+(\S+)", line)
        if m:
            names.append(".".join(ns + [m.group(1)]))
    return names


def strip_comments(src):
    out = []
    i = 0
    depth = 0
    n = len(src)
    while i < n:
        if src.startswith("/-", i):
            depth += 1
            i += 2
            continue
        if depth and src.startswith("-/", i):
            depth -= 1
            i += 2
            continue
        if depth:
            if src[i] == "\n":
                out.append("\n")
            i += 1
            continue
        if src.startswith("--", i):
            while i < n and src[i] != "\n":
                i += 1
            continue
        out.append(src[i])
        i += 1
    return "".join(out)


def grep_forbidden(paths):
    hits = []
    for p in paths:
        try:
            src = strip_comments(open(p).read())
        except FileNotFoundError:
            continue
        for ln, line in enumerate(src.splitlines(), 1):
            if FORBIDDEN.search(line):
                hits.append("%s:%d: %s" % (os.path.relpath(p, VERIF), ln, line.strip()))
    return hits


def import_closure(modules):
    """Files of the PdsVerif modules reachable from `modules` through `import PdsVerif.*` lines."""
    seen, todo = set(), list(modules)
    while todo:
        m = todo.pop()
        if m in seen:
            continue
        seen.add(m)
        try:
            src = open(module_path(m)).read()
        except FileNotFoundError:
            continue
        for mm in re.finditer(r"^import\s+(PdsVerif(?:\.\w+)+)", src, re.M):
            todo.append(mm.group(1))
    return [module_path(m) for m in sorted(seen)]


def lean_sources():
    res = []
    for root, _, files in os.walk(os.path.join(LEAN, "PdsVerif")):
        for f in files:
            if f.endswith(".lean"):
                res.append(os.path.join(root, f))
    for f in os.listdir(os.path.join(LEAN, "drivers")):
        if f.endswith(".lean"):
            res.append(os.path.join(LEAN, "drivers", f))
    return res


def audit(prop, modules, theorems, timeout=1500):
    """`#print axioms` on every theorem. Returns (ok_names, bad dict name->reason, log)."""
    d = os.path.join(LEAN, ".audit")
    os.makedirs(d, exist_ok=True)
    path = os.path.join(d, "Audit_%s.lean" % prop)
    with open(path, "w") as f:
        for m in modules:
            f.write("import %s\n" % m)
        for t in theorems:
            f.write("#print axioms %s\n" % t)
    p = subprocess.run(
        ["lake", "env", "lean", path],
        cwd=LEAN,
        stdout=subprocess.PIPE,
        stderr=subprocess.STDOUT,
        text=True,
        timeout=timeout,
    )
    log = p.stdout
    ok, bad = [], {}
    seen = {}
    # messages may span several lines: join then split on the theorem marker
    flat = re.sub(r"\s+", " ", log)
    for m in re.finditer(r"'(\S+)' depends on axioms: \[([^\]]*)\]", flat):
        seen[m.group(1)] = {a.strip() for a in m.group(2).split(",") if a.strip()}
    for m in re.finditer(r"'(\S+)' does not depend on any axioms", flat):
        seen[m.group(1)] = set()
    for t in theorems:
        if t not in seen:
            bad[t] = "not found / did not elaborate"
        elif not seen[t] <= STD_AXIOMS:
            bad[t] = "non-standard axioms: %s" % sorted(seen[t] - STD_AXIOMS)
        else:
            ok.append(t)
    return ok, bad, log


def leanchecker(modules, timeout=2400):
    p = subprocess.run(["lake", "env", "leanchecker"] + list(modules), cwd=LEAN, stdout=subprocess.PIPE,
                       stderr=subprocess.STDOUT, text=True, timeout=timeout)
    return p.returncode == 0, p.stdout


def failing_theorems(log):
    """Map `error: File.lean:LINE:COL` lines of a lake log to enclosing theorem names."""
    res = []
    for m in re.finditer(r"error: (?:\./)?([\w/\.]+\.lean):(\d+):(\d+):?\s*(.*)", log):
        path, line, msg = m.group(1), int(m.group(2)), m.group(4)
        full = os.path.join(LEAN, path)
        name = None
        try:
            lines = open(full).read().splitlines()
            for i in range(min(line, len(lines)) - 1, -1, -1):
                mm = re.match(r"\s*(?:@\[[^\]]*\]\s*)?(?:theorem|lemma|def|example|instance)\s*(\S*)", lines[i])
                if mm:
                    name = mm.group(1) or "example"
                    break
        except FileNotFoundError:
            pass
        res.append(dict(file=path, line=line, decl=name, msg=msg[:200]))
    return res


class Driver:
    """Batch line protocol with `lake env lean --run Driver.lean`."""

    def __init__(self, prop):
        self.path = "drivers/%s.lean" % prop

    def run(self, lines, timeout=1200):
        if not lines:
            return []
        inp = "\n".join(lines) + "\n"
        p = subprocess.run(
            ["lake", "env", "lean", "--run", self.path],
            cwd=LEAN,
            input=inp,
            stdout=subprocess.PIPE,
            stderr=subprocess.PIPE,
            text=True,
            timeout=timeout,
        )
        out = p.stdout.splitlines()
        if p.returncode != 0 or len(out) != len(lines):
            raise DriverError(
                "driver rc=%s, %d lines in, %d lines out; stderr: %s"
                % (p.returncode, len(lines), len(out), p.stderr[-2000:])
            )
        return out


class DriverError(Exception):
    pass


def strided_view(x, how):
    """the same values as the 1-D array `x`, held in memory that is NOT contiguous: every other element of a longer
    array (`step2`), one channel of an interleaved stereo buffer (`column`), or a reversed array read backwards
    (`negative`: stride < 0).  Legal NumPy arrays that code using `itemsize` instead of `strides`, `np.frombuffer`,
    `.data`, `reshape(-1)` without a copy, or raw pointer arithmetic gets wrong."""
    import numpy as np
    x = np.asarray(x)
    if how == "step2":
        base = np.full(2 * len(x) + 1, np.nan if x.dtype.kind == "f" else 0, dtype=x.dtype)
        base[0:2 * len(x):2] = x
        v = base[0:2 * len(x):2]
    elif how == "column":
        base = np.full((len(x), 2), np.nan if x.dtype.kind == "f" else 0, dtype=x.dtype)
        base[:, 0] = x
        v = base[:, 0]
    elif how == "negative":
        base = np.ascontiguousarray(x[::-1])
        v = base[::-1]
    else:
        raise ValueError(how)
    assert v.shape == x.shape and (len(x) < 2 or not v.flags["C_CONTIGUOUS"] or how == "negative")
    return v


import contextlib as _contextlib


@_contextlib.contextmanager
def strict_fp(on=True):
    """the caller's floating-point error state and warning filters are the caller's business: a program that runs with
    `np.errstate(divide='raise', invalid='raise')` and RuntimeWarnings promoted to errors must get the same results (the
    floor is applied BEFORE the logarithm: log(0) is never evaluated on silence)"""
    import warnings
    import numpy as np
    if not on:
        yield
        return
    with np.errstate(divide="raise", invalid="raise"), warnings.catch_warnings():
        warnings.simplefilter("error", RuntimeWarning)
        yield


class NotCopyable(Exception):
    pass


def clone_routes(obj):
    """[(how, copy of obj)]: `copy.deepcopy` and a pickle round trip.  A copy of a library object is a library object
    with the same configuration: everything a property says about "any computer / bank / processor" holds for it.  Code
    that keeps NumPy views of its own buffers, or caches derived values outside the pickled state, breaks here and
    nowhere else.  A route that raises is reported as (how, exception)."""
    import copy
    import pickle
    out = []
    for how, fn in (("deepcopy", copy.deepcopy), ("pickle", lambda o: pickle.loads(pickle.dumps(o)))):
        try:
            out.append((how, fn(obj)))
        except Exception as e:  # noqa
            out.append((how, e))
    return out


import io as _io


class PipeStream(_io.RawIOBase):
    """a binary stream that can only be read forward (a pipe, a socket, `subprocess.Popen(...).stdout`): not seekable, no
    `tell`; `read(n)` may return fewer bytes than asked for (never 0 before the end)"""

    def __init__(self, data, short=0):
        super().__init__()
        self._d, self._p, self._short = bytes(data), 0, short

    def readable(self):
        return True

    def seekable(self):
        return False

    def seek(self, *a):
        raise _io.UnsupportedOperation("seek")

    def tell(self):
        raise _io.UnsupportedOperation("tell")

    def read(self, n=-1):
        if n is None or n < 0:
            n = len(self._d) - self._p
        if self._short and n > self._short:
            n = self._short
        out = self._d[self._p:self._p + n]
        self._p += len(out)
        return out

    def readinto(self, b):
        out = self.read(len(b))
        b[:len(out)] = out
        return len(out)


def offset_stream(data, junk=b"JUNK-before-the-record:" + bytes(range(9, 41))):
    """a seekable stream in which the record does NOT start at offset 0 (the second record of a stream, an entry of a
    container): positioned at the record's first byte"""
    f = _io.BytesIO(bytes(junk) + bytes(data))
    f.seek(len(junk))
    return f


# ---- floats over the line protocol ---------------------------------------------------------
import struct


def fbits(x):
    return str(struct.unpack("<Q", struct.pack("<d", float(x)))[0])


def bits_to_float(s):
    return struct.unpack("<d", struct.pack("<Q", int(s)))[0]


def close(a, b, rel=1e-10, abs_=1e-12):
    if a != a or b != b:
        return (a != a) and (b != b)
    if a in (float("inf"), float("-inf")) or b in (float("inf"), float("-inf")):
        return a == b
    return abs(a - b) <= abs_ + rel * max(abs(a), abs(b))


# ---- known findings ------------------------------------------------------------------------


def load_known():
    p = os.path.join(VERIF, "KNOWN_FINDINGS.json")
    try:
        return json.load(open(p))
    except FileNotFoundError:
        return []


def match_known(prop, viol, known):
    """An *open* finding matches when every key of its `match` equals the violation's tag."""
    for k in known:
        if k.get("property") != prop or not str(k.get("status", "")).startswith("open"):
            continue
        tags = viol.get("tags", {})
        if all(tags.get(a) == b for a, b in k.get("match", {}).items()) and k.get("match"):
            return k
    return None

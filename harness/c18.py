"""C18 - pre-processors (Preemphasize, Dither) apply the documented sample-wise transforms.

Tie: every value crosses the wire as an IEEE-754 binary64 bit pattern; the Lean model
(`PdsVerif/Model/Pre.lean`, instantiated at Rat) computes the *exact* value.  When every float64
intermediate of the implementation is exactly representable (dyadic coefficient, integer-valued
signal) the comparison is exact; otherwise it is within the two roundings the computation performs.

Dither's noise vector `z` is obtained through the public API itself: `z = Dither(1).apply(zeros)` under
the same seed (then `y = 0 + (0 + 1*z) = z` exactly), so the tie does not depend on *how* the code draws
its normal variates, only on the claim of the property: the noise is independent of the signal and
scales linearly with coeff.
"""
import math
import random
import warnings
from fractions import Fraction

import shutil
import os
import numpy as np

from . import common

PROP = "C18"
MODULES = ["PdsVerif.Props.PreArithTie", "PdsVerif.Props.C18"]
MODEL_MODULES = ["PdsVerif.Model.Pre"]
REQUIRED = [
    "PdsVerif.C18." + n
    for n in """zip_eq_recur preemph_eq_spec preemph_len preemph_spec preemph_spec_getElem preemph_first
    preemph_nil preemph_singleton preemph_zero preemph_rows preemph_torch_eq_np
    truncZ_intCast truncZ_toward_zero cast_back cast_back_int16 cast_back_int32 cast_back_float
    cast_back_integral cast_back_exact
    dither_len dither_shape dither_zero dither_linear dither_normalised dither_noise_indep dither_torch_eq_np
    not_in_place_pure in_place_same_values in_place_input preemph_apply_float64
    preemph_not_in_place_pure preemph_in_place_same_values
    dither_not_in_place_pure dither_in_place_same_values""".split()
] + ["PdsVerif.PreArithTie." + n for n in """preemphNp_eq_gen copy_flag_eq_gen dither_copy_flag_eq_gen dither_eq_gen
    preemphTorch_eq_gen ditherTorch_eq_gen np_pre_upd_spec torch_pre_out_spec np_pre_copies_spec np_dither_copies_spec
    np_dither_upd_spec torch_dither_out_spec np_dither_eq_torch np_pre_eq_torch""".split()]


def translate(repo):
    """whole-array statements of Preemphasize / Dither (pre.py) and their PyTorch forms (torch.py)
    -> Generated/PreArith.lean (theorems: Props/PreArithTie.lean)"""
    from .translate import prearith
    return prearith.generate(repo)


RULE = (
    "case = (op in {Preemphasize, Dither} x {numpy class, torch module}, dtype in int16/int32/float32/float64, "
    "shape (1-D lengths 0,1,2,..12 dense, up to 300; 2-D/3-D with every axis value), in_place, coefficient "
    "(dyadic pool 0, .5, .25, 1, -1, 2, m/2^k; non-dyadic .97, .95, .1, 1/3, random), signal kind (small / "
    "full-range / even integers, all-ones, impulse, random floats), numpy/torch seed). Distinct by the whole tuple; "
    "length-0 and coefficient-0 cases are counted as trivial."
)
TRUSTED = [
    "semantics of the NumPy primitives the model names: basic slicing x[1:], x[:-1], x[..., k] (views), "
    "`-=` with a temporary right-hand side, ndarray.astype (int->float64 exact widening; float64->int C truncation; "
    "copy=False returns self iff dtype unchanged), np.moveaxis as a view; torch.cat / new_zeros / slicing",
    "float64 arithmetic is modelled by exact rationals: exact correspondence is demanded only when every intermediate "
    "is representable, otherwise agreement within the roundings performed (2^-51 * (|x_i| + |c x_{i-1}|), "
    "plus 2^-24 relative for a float32 result)",
    "multi-dimensional inputs are tied lane by lane: the harness slices lanes along `axis` with explicit index loops "
    "and feeds each lane to the 1-D model (the Lean side only has `preemphRows = map preemphNp`)",
    "the Dither noise vector z is read off the implementation itself as Dither(1).apply(zeros) under the same seed "
    "(public API); NumPy's / torch's generator being a deterministic function of the seed and of the draw shape",
]
ASSUMPTIONS = [
    "integer dtypes: no claim when the truncated exact value leaves the dtype's range (C undefined behaviour; model "
    "answers `undef`, cases counted as out_of_scope)",
    "cast_back_exact carries the hypothesis that every exact output is an in-range integer; otherwise cast_back says "
    "truncation toward zero of the exact value (float rounding next to an integer boundary is tolerated, sampled)",
    "dither_* carry |z| = |x| (the code draws noise of the signal's shape); dither_noise_indep needs c1, c2 != 0 in a field",
    "RESIDUE (sampled, not proved): the noise is N(0,1)-distributed - checked statistically on 200k draws per "
    "coefficient (|mean| < 6 c/sqrt N, |std/c - 1| < 0.02) for np.random and torch.randn; reproducibility under "
    "numpy.random.seed / torch.manual_seed is a runtime fact, sampled",
    "IEEE round-off is absent from the theorems; non-representable cases are compared under the stated tolerance and "
    "counted as hypothesis_gap_cases",
    "NaN / inf samples and coefficients, 0-d arrays (IndexError) are outside the quantifier; so is a negative Dither "
    "coeff (not a standard deviation): code and model both answer ValueError today, which is counted in the histogram "
    "but not enforced",
]
LEVEL_TEXT = (
    "Full proof (all lengths, any ring / field, no bounds): Preemphasize's simultaneous slice update equals the "
    "documented recurrence on the original signal (y0=x0, y[i+1]=x[i+1]-c*x[i]), length, empty/singleton, coeff 0, "
    "torch cat/slice form = NumPy form; cast back to integer dtypes is truncation toward zero and is the identity on "
    "integral results; Dither y=x+c*z with z a parameter, c=0 identity, (y-x)=c*z, (y-x)/c the same for any signals and "
    "non-zero coefficients, torch form = NumPy form; in_place=False leaves the input and shares nothing, in_place=True "
    "returns the same values. Distribution of the noise and seed reproducibility are sampled only."
)
LEVEL_NOTE = (
    "Tie: the per-sample update functions and the copy condition are regenerated from pre.py / torch.py on every run and "
    "proved to be what the list model applies (PreArithTie) and the documented formulas. "
    "Trusted: Lean kernel + std axioms, the prearith translator, NumPy/torch slicing/astype/cat semantics named in the model, exact-rational "
    "stand-in for float64 (exact tie when representable, two-rounding tolerance otherwise), noise vector read from the "
    "implementation at coeff 1 / zero signal. Statistical clauses (mean 0, std coeff) are sampled, not proved."
)
TECHNIQUE = "Lean 4 proof over an executable list model (Rat) + exact/tolerance correspondence through the public API"

DTYPES = ["int16", "int32", "float32", "float64"]
INT_RANGE = {"int16": (-32768, 32767), "int32": (-2147483648, 2147483647)}
DYADIC = [0.0, 0.5, 0.25, 1.0, -0.5, 2.0, 0.75, -1.0, 1.5, 0.125, -0.25, 3.0]
NONDYADIC = [0.97, 0.95, 0.1, -0.3, 1.0 / 3.0, 0.9375 + 1e-9]
DITHER_COEFFS = [0.0, 0.5, 1.0, 2.0, 0.25, 3.0, 0.1, 1e-3, 100.0, 0.97]
EPS = Fraction(1, 2 ** 51)  # two float64 roundings, with slack
EPS32 = Fraction(1, 2 ** 22)


# ---------------------------------------------------------------------------------------------
# helpers


def impl():
    from pydrobert.speech import pre

    return pre


def impl_torch():
    import torch  # noqa
    from pydrobert.speech import torch as pt

    return pt


def fr(v):
    return Fraction(float(v))


def rep64(q):
    try:
        return Fraction(float(q)) == q
    except OverflowError:
        return False


def rep32(q):
    try:
        with np.errstate(all="ignore"):
            return Fraction(float(np.float32(float(q)))) == q
    except OverflowError:
        return False


def trunc(q):
    return math.trunc(q)


def bits_list(vals):
    return ",".join(common.fbits(v) for v in vals) if len(vals) else "-"


def parse_rats(s):
    if s == "-":
        return []
    return [Fraction(t) for t in s.split(",")]


def parse_outcome(s):
    """`ok out inputAfter shares` -> (out, inputAfter, shares) ; `ok out` -> (out, None, None)."""
    p = s.split(" ")
    if p[0] != "ok":
        return None
    if len(p) == 2:
        return parse_rats(p[1]), None, None
    return parse_rats(p[1]), parse_rats(p[2]), p[3] == "1"


def make_signal(kind, dtype, shape, xseed):
    """Deterministic signal (so a replay file stays small)."""
    r = random.Random(xseed)
    n = int(np.prod(shape)) if len(shape) else 1
    isint = dtype in INT_RANGE
    if kind == "small":
        v = [r.randint(-9, 9) for _ in range(n)]
    elif kind == "even":
        v = [16 * r.randint(-500, 500) for _ in range(n)]
    elif kind == "mid":
        v = [r.randint(-2000, 2000) for _ in range(n)]
    elif kind == "full":
        lo, hi = INT_RANGE.get(dtype, (-(2 ** 20), 2 ** 20))
        v = [r.choice([lo, hi, r.randint(lo, hi), r.randint(lo, hi)]) for _ in range(n)]
    elif kind == "ones":
        v = [1] * n
    elif kind == "impulse":
        v = [0] * n
        if n:
            v[r.randrange(n)] = r.choice([1, -3, 64])
    elif kind == "float" and not isint:
        v = [r.choice([r.uniform(-100, 100), r.gauss(0, 1), r.uniform(-1, 1) * 2.0 ** r.randint(-20, 20)]) for _ in range(n)]
    else:
        v = [r.randint(-9, 9) for _ in range(n)]
    return np.array(v, dtype=dtype).reshape(shape)


def lanes(shape, axis):
    """Index tuples of every 1-D lane of an array of `shape` along `axis` (explicit loops)."""
    nd = len(shape)
    ax = axis % nd
    others = [range(shape[d]) for d in range(nd) if d != ax]

    def rec(prefix, rest):
        if not rest:
            yield prefix
            return
        for i in rest[0]:
            yield from rec(prefix + [i], rest[1:])

    for combo in rec([], others):
        idxs = []
        for i in range(shape[ax]):
            full = list(combo)
            full.insert(ax, i)
            idxs.append(tuple(full))
        yield idxs


def finite_or_violation(ctx, case, arr, op):
    """All generated inputs are finite and far from overflow, so a non-finite output is never right."""
    a = np.asarray(arr)
    if a.dtype.kind == "f" and not np.isfinite(a).all():
        ctx.violation(case, "finite values", a.ravel().tolist()[:20], "finite, moderate inputs give finite outputs",
                      tags=dict(op=op, clause="non_finite"))
        return False
    return True


def value_ok(got, q, tol, dtype):
    """Is implementation value `got` (Fraction) acceptable for exact value q with absolute tolerance tol?"""
    if dtype in INT_RANGE:
        return trunc(q - tol) <= got <= trunc(q + tol)
    return q - tol <= got <= q + tol


def in_range(q, dtype, tol=0):
    if dtype not in INT_RANGE:
        return True
    lo, hi = INT_RANGE[dtype]
    return lo <= trunc(q - tol) and trunc(q + tol) <= hi


# ---------------------------------------------------------------------------------------------
# Preemphasize (numpy class)


def pre_case(r, tier):
    u = r.random()
    if u < 0.8:
        n = r.choice([0, 1, 2, 2, 3, 3, 4, 5, 6, 7, 8, 9, 10, 11, 12])
        shape = [n]
    elif u < 0.876:
        shape = [r.choice([13, 17, 32, 64, 100, 300])]
    elif u < 0.88:
        # long signals straddling typical block sizes (a block-wise / chunked rewrite must still be the
        # recurrence on the ORIGINAL samples at every block boundary)
        shape = [r.choice([4097, 8194, 16385, 16386, 16400, 32770, 40001, 65537, 65538, 131075])]
    elif u < 0.96:
        shape = [r.randint(0, 4), r.randint(0, 5)]
    else:
        shape = [r.randint(1, 3), r.randint(1, 3), r.randint(0, 4)]
    dtype = r.choice(DTYPES)
    if r.random() < 0.7:
        coeff = r.choice(DYADIC) if r.random() < 0.7 else r.randint(-16, 16) / 2.0 ** r.randint(0, 4)
    else:
        coeff = r.choice(NONDYADIC) if r.random() < 0.6 else r.uniform(-1.5, 1.5)
    kinds = ["small", "even", "mid", "full", "ones", "impulse"] + (["float", "float"] if dtype not in INT_RANGE else [])
    nd = len(shape)
    if nd == 1:
        axis = r.choice([None, None, None, -1, 0])
    else:
        axis = r.choice([None, -1] + list(range(nd)) + [-nd])
    return dict(op="pre", dtype=dtype, shape=shape, in_place=r.random() < 0.5, axis=axis, coeff=coeff,
                sig=r.choice(kinds), xseed=r.randrange(2 ** 31))


def call_apply(obj, x, axis, in_place):
    with warnings.catch_warnings():
        warnings.simplefilter("ignore")
        with np.errstate(all="ignore"):
            if in_place is False and (x.size + (0 if axis is None else 1)) % 3 == 0:
                # `in_place` left to its documented default (False) instead of being spelled out; which calls do so
                # depends on the case only
                return obj.apply(x) if axis is None else obj.apply(x, axis)
            return obj.apply(x, axis=axis, in_place=in_place)


def via_config(P, alias, coeff):
    """the pre-processor through the documented configuration route (a mapping handed to alias_factory_subclass_from_arg)"""
    from pydrobert.speech.alias import alias_factory_subclass_from_arg

    return alias_factory_subclass_from_arg(P.PreProcessor, {"alias": alias, "coeff": coeff})


def pre_exact(x_fr, c):
    """Naive loop on a copy: reads only the ORIGINAL samples.  Returns (exact values, tolerances, exact?)."""
    out = list(x_fr)
    tol = [Fraction(0)] * len(x_fr)
    for i in range(1, len(x_fr)):
        prod = c * x_fr[i - 1]
        out[i] = x_fr[i] - prod
        if not (rep64(prod) and rep64(out[i])):
            tol[i] = EPS * (abs(x_fr[i]) + abs(prod))
    return out, tol


def run_pre_case(ctx, case, lines, pending):
    P = impl()
    dtype, shape, axis, ip, coeff = case["dtype"], case["shape"], case["axis"], case["in_place"], case["coeff"]
    x = make_signal(case["sig"], dtype, shape, case["xseed"])
    x0 = x.copy()
    c = fr(coeff)
    n_lane = shape[-1 if axis is None else axis] if shape else 0
    trivial = x.size == 0 or n_lane <= 1 or coeff == 0
    ctx.case(case, nontrivial=not trivial, kind="pre_np")
    ctx.count("pre_dtype_" + dtype)
    ctx.count("pre_lane_len_%s" % (n_lane if n_lane <= 12 else ">12"))
    ctx.count("pre_ndim_%d" % len(shape))
    ctx.count("pre_in_place_%s" % ip)
    ctx.count("pre_axis_%s" % axis)
    try:
        y = call_apply(via_config(P, "preemph", coeff) if case["xseed"] % 4 == 0 else P.Preemphasize(coeff), x, axis, ip)
    except Exception as e:  # the property's quantifier holds no input on which apply may raise
        ctx.violation(case, "a result", "%s: %s" % (type(e).__name__, e), "Preemphasize.apply returns", tags=dict(op="pre", clause="raises"))
        return
    # reference run with the other in_place setting on a fresh copy
    x_other = x0.copy()
    y_other = call_apply(P.Preemphasize(coeff), x_other, axis, not ip)
    tags = dict(op="pre")
    if not (finite_or_violation(ctx, case, y, "pre") and finite_or_violation(ctx, case, x, "pre")):
        return
    # ---- structure
    if y.dtype != x0.dtype or list(y.shape) != list(shape):
        ctx.violation(case, [dtype, shape], [str(y.dtype), list(y.shape)], "result has the input's dtype and shape",
                      tags=dict(tags, clause="dtype_shape"))
        return
    shares = bool(np.shares_memory(y, x)) if x.size else None  # empty arrays own no memory to share
    if not ip:
        if x.tobytes() != x0.tobytes() or shares:
            ctx.violation(case, "input untouched, result not aliased", dict(input_after=x.ravel().tolist()[:20], shares=shares),
                          "in_place=False leaves the input untouched", tags=dict(tags, clause="not_in_place_pure"))
    same = y.tobytes() == y_other.tobytes()
    if not same:
        ctx.violation(case, y_other.ravel().tolist()[:20], y.ravel().tolist()[:20],
                      "in_place=True and in_place=False return the same values", tags=dict(tags, clause="in_place_same_values"))
    # ---- values, lane by lane: oracle (naive loop, exact rationals) + model lines
    ax = -1 if axis is None else axis
    any_gap = False
    for lane in lanes(shape, ax):
        xs = [fr(x0[i]) for i in lane]
        ys = [fr(y[i]) for i in lane]
        xa = [fr(x[i]) for i in lane]
        q, tol = pre_exact(xs, c)
        if dtype == "float32":
            tol = [t + (0 if rep32(v) else abs(v) * Fraction(1, 2 ** 24)) for v, t in zip(q, tol)]
        exact = all(t == 0 for t in tol)
        any_gap = any_gap or not exact
        ctx.count("pre_lane_exact" if exact else "pre_lane_tolerance")
        oos = not all(in_range(v, dtype, t) for v, t in zip(q, tol))
        if oos:
            ctx.count("out_of_scope")
            ctx.count("pre_int_overflow_lane")
        else:
            if ys and ys[0] != xs[0]:
                ctx.violation(case, str(xs[0]), str(ys[0]), "y[0] == x[0]", tags=dict(tags, clause="first_sample"))
            for i in range(1, len(xs)):
                if not value_ok(ys[i], q[i], tol[i], dtype):
                    ctx.violation(dict(case, index=i), float(trunc(q[i]) if dtype in INT_RANGE else q[i]), float(ys[i]),
                                  "y[i] == cast(x[i] - coeff*x[i-1]) on the ORIGINAL x (float64, then cast to the input dtype)",
                                  tags=dict(tags, clause="recurrence"))
                    break
        # model lines: the dtype itself, and float64 (pre-cast exact value)
        xb = bits_list([float(v) for v in xs])
        lines.append("pre.np %s %d %s %s" % (dtype, 1 if ip else 0, common.fbits(coeff), xb))
        pending.append(("pre.np", case, dict(ys=ys, xa=xa, shares=shares, q=q, tol=tol, exact=exact, oos=oos, dtype=dtype)))
    if any_gap:
        ctx.gap_cases += 1


def check_np_line(ctx, what, case, info, out):
    """Compare one `pre.np` / `dither.np` answer with what the implementation did on that lane."""
    dtype = info["dtype"]
    if out == "undef":
        if not info["oos"]:
            ctx.mismatch(case, out, [float(v) for v in info["ys"]][:20], what + ": model says out of range, harness says in range")
        return
    oc = parse_outcome(out)
    if oc is None:
        ctx.mismatch(case, out, [float(v) for v in info["ys"]][:20], what + ": driver rejected")
        return
    if info["oos"]:
        return  # next to the range boundary under tolerance: no claim
    mo, mi, ms = oc
    ys, xa = info["ys"], info["xa"]
    if len(mo) != len(ys):
        ctx.mismatch(case, len(mo), len(ys), what + ": length")
        return
    for i, (m, g) in enumerate(zip(mo, ys)):
        if info["exact"]:
            ok = m == g
        elif dtype in INT_RANGE:
            ok = value_ok(g, info["q"][i], info["tol"][i], dtype) and value_ok(m, info["q"][i], info["tol"][i], dtype)
        else:
            ok = abs(m - g) <= info["tol"][i]
        if not ok:
            ctx.mismatch(dict(case, index=i), float(m), float(g), what + ": value (%s)" % ("exact" if info["exact"] else "tolerance"))
            return
    if info["shares"] is not None and ms != info["shares"]:
        ctx.mismatch(case, ms, info["shares"], what + ": result shares memory with the input")
        return
    # caller's array after the call
    for i, (m, g) in enumerate(zip(mi, xa)):
        tol = 0 if (info["exact"] or not ms) else info["tol"][i]
        if abs(m - g) > tol:
            ctx.mismatch(dict(case, index=i), float(m), float(g), what + ": input array after the call")
            return


# ---------------------------------------------------------------------------------------------
# torch pre-emphasis


def torch_pre_case(r):
    n = r.choice([0, 1, 2, 3, 4, 5, 6, 7, 8, 12, 33])
    dtype = r.choice(["float32", "float64"])
    if r.random() < 0.7:
        coeff = r.choice(DYADIC)
    else:
        coeff = r.choice(NONDYADIC)
    return dict(op="pre_torch", dtype=dtype, shape=[n], coeff=coeff,
                sig=r.choice(["small", "even", "mid", "ones", "impulse", "float"]), xseed=r.randrange(2 ** 31),
                functional=r.random() < 0.3)


def run_torch_pre_case(ctx, case, lines, pending):
    import torch

    P, T = impl(), impl_torch()
    dtype, coeff = case["dtype"], case["coeff"]
    x = make_signal(case["sig"], dtype, case["shape"], case["xseed"])
    n = x.size
    ctx.case(case, nontrivial=n > 1 and coeff != 0, kind="pre_torch")
    t = torch.from_numpy(x.copy())
    t0 = t.clone()
    np_obj = P.Preemphasize(coeff)
    try:
        if case["functional"]:
            yt = T.pytorch_preemphasize(t, coeff)
        else:
            yt = T.PyTorchPreemphasize.from_preemphasize(np_obj)(t)
    except Exception as e:
        ctx.violation(case, "a result", "%s: %s" % (type(e).__name__, e), "PyTorchPreemphasize returns", tags=dict(op="pre_torch", clause="raises"))
        return
    tags = dict(op="pre_torch")
    if not torch.equal(t, t0):
        ctx.violation(case, "input untouched", t.tolist()[:20], "torch module leaves its input untouched", tags=dict(tags, clause="not_in_place_pure"))
    if str(yt.dtype) != "torch." + dtype or list(yt.shape) != [n]:
        ctx.violation(case, [dtype, [n]], [str(yt.dtype), list(yt.shape)], "torch result has the input's dtype and shape", tags=dict(tags, clause="dtype_shape"))
        return
    ynp = call_apply(np_obj, x.copy(), None, False)
    if not (finite_or_violation(ctx, case, yt.numpy(), "pre_torch") and finite_or_violation(ctx, case, ynp, "pre")):
        return
    xs = [fr(v) for v in x]
    c = fr(coeff)
    q, tol = pre_exact(xs, c)
    if dtype == "float32":
        # torch computes in float32 (coefficient, product and difference each rounded to float32)
        c32 = fr(np.float32(coeff))
        tol = [Fraction(0) if (i == 0 or (c32 == c and rep32(c * xs[i - 1]) and rep32(q[i])))
               else EPS32 * (abs(xs[i]) + abs(c * xs[i - 1])) for i in range(len(xs))]
    exact = all(v == 0 for v in tol)
    if not exact:
        ctx.gap_cases += 1
    ctx.count("pre_torch_exact" if exact else "pre_torch_tolerance")
    ys = [fr(v) for v in yt.tolist()]
    yn = [fr(v) for v in ynp]
    for i in range(len(xs)):
        # both the recurrence and equality with the NumPy class (numpy float32: float64 then cast, so it is within tol of q too)
        if abs(ys[i] - q[i]) > tol[i]:
            ctx.violation(dict(case, index=i), float(q[i]), float(ys[i]), "torch y[0]=x[0], y[i] = x[i] - coeff*x[i-1]",
                          tags=dict(tags, clause="first_sample" if i == 0 else "recurrence"))
            break
        tn = tol[i] + (abs(q[i]) * Fraction(1, 2 ** 24) if dtype == "float32" and not exact else 0)
        if abs(ys[i] - yn[i]) > tn + (EPS * (abs(xs[i]) + abs(q[i])) if not exact else 0):
            ctx.violation(dict(case, index=i), float(yn[i]), float(ys[i]), "PyTorchPreemphasize == Preemphasize on the same signal",
                          tags=dict(tags, clause="torch_eq_numpy"))
            break
    lines.append("pre.torch %s %s" % (common.fbits(coeff), bits_list([float(v) for v in xs])))
    pending.append(("pre.torch", case, dict(ys=ys, tol=tol, exact=exact)))


def check_torch_line(ctx, what, case, info, out):
    oc = parse_outcome(out)
    if oc is None:
        ctx.mismatch(case, out, [float(v) for v in info["ys"]][:20], what + ": driver answered")
        return
    mo = oc[0]
    if len(mo) != len(info["ys"]):
        ctx.mismatch(case, len(mo), len(info["ys"]), what + ": length")
        return
    for i, (m, g) in enumerate(zip(mo, info["ys"])):
        if abs(m - g) > info["tol"][i]:
            ctx.mismatch(dict(case, index=i), float(m), float(g), what + ": value (%s)" % ("exact" if info["exact"] else "tolerance"))
            return


# ---------------------------------------------------------------------------------------------
# Dither (numpy class)


def dither_case(r):
    u = r.random()
    if u < 0.8:
        shape = [r.choice([0, 1, 2, 3, 4, 5, 6, 7, 8, 12, 40])]
        axis = r.choice([None, None, None, 0, -1])
    elif u < 0.92:
        shape = [r.randint(1, 4), r.randint(1, 4)]
        axis = r.choice([None, 0, 1, -1, -2])
    else:
        shape = [r.randint(1, 3), r.randint(1, 3), r.randint(1, 3)]
        axis = r.choice([None, 0, 1, 2, -1])
    dtype = r.choice(DTYPES)
    coeff = r.choice(DITHER_COEFFS) if r.random() < 0.8 else 10 ** r.uniform(-3, 2)
    if r.random() < 0.04:
        coeff = -abs(coeff) - 0.5
    kinds = ["small", "even", "mid", "ones", "impulse"] + (["float"] if dtype not in INT_RANGE else [])
    return dict(op="dither", dtype=dtype, shape=shape, in_place=r.random() < 0.5, axis=axis, coeff=coeff,
                sig=r.choice(kinds), xseed=r.randrange(2 ** 31), seed=r.randrange(2 ** 32))


def seeded_dither(P, coeff, x, axis, in_place, seed):
    np.random.seed(seed)
    return call_apply(via_config(P, "dither", coeff) if seed % 4 == 0 else P.Dither(coeff), x, axis, in_place)


def dither_exact(xs, zs, c):
    out, tol = [], []
    for a, g in zip(xs, zs):
        prod = c * g
        v = a + prod
        out.append(v)
        tol.append(Fraction(0) if (rep64(prod) and rep64(v)) else EPS * (abs(a) + abs(prod)))
    return out, tol


def run_dither_case(ctx, case, lines, pending):
    P = impl()
    dtype, shape, axis, ip, coeff, seed = (case[k] for k in ("dtype", "shape", "axis", "in_place", "coeff", "seed"))
    x = make_signal(case["sig"], dtype, shape, case["xseed"])
    x0 = x.copy()
    tags = dict(op="dither")
    ctx.case(case, nontrivial=x.size > 0 and coeff != 0, kind="dither_np")
    ctx.count("dither_dtype_" + dtype)
    ctx.count("dither_ndim_%d" % len(shape))
    ctx.count("dither_axis_%s" % axis)
    if coeff < 0:
        # a negative standard deviation is rejected (np.random.normal: ValueError) - model: err:ValueError
        try:
            seeded_dither(P, coeff, x, axis, ip, seed)
            got = "returned"
        except ValueError:
            got = "err:ValueError"
        except Exception as e:
            got = "err:" + type(e).__name__
        ctx.count("dither_negative_coeff")
        ctx.count("out_of_scope")
        flat = [float(v) for v in x0.ravel()]
        lines.append("dither.np %s %d %s %s %s" % (dtype, 1 if ip else 0, common.fbits(coeff), bits_list([0.0] * len(flat)), bits_list(flat)))
        pending.append(("dither.err", case, dict(got=got)))
        return
    try:
        y = seeded_dither(P, coeff, x, axis, ip, seed)
    except Exception as e:
        ctx.violation(case, "a result", "%s: %s" % (type(e).__name__, e), "Dither.apply returns", tags=dict(tags, clause="raises"))
        return
    if y.dtype != x0.dtype or list(y.shape) != list(shape):
        ctx.violation(case, [dtype, shape], [str(y.dtype), list(y.shape)], "result has the input's dtype and shape", tags=dict(tags, clause="dtype_shape"))
        return
    if not (finite_or_violation(ctx, case, y, "dither") and finite_or_violation(ctx, case, x, "dither")):
        return
    shares = bool(np.shares_memory(y, x)) if x.size else None  # empty arrays own no memory to share
    if not ip and (x.tobytes() != x0.tobytes() or shares):
        ctx.violation(case, "input untouched, result not aliased", dict(input_after=x.ravel().tolist()[:20], shares=shares),
                      "in_place=False leaves the input untouched", tags=dict(tags, clause="not_in_place_pure"))
    # one Dither object used repeatedly: results handed out earlier are the caller's and must survive later
    # calls; feeding a result back with in_place=False must not modify it
    if not ip and x.size:
        obj = P.Dither(coeff)
        np.random.seed(seed)
        r1 = call_apply(obj, x0.copy(), axis, False)
        keep = r1.tobytes()
        r2 = call_apply(obj, x0.copy(), axis, False)
        r3 = call_apply(obj, r1, axis, False)
        if r1.tobytes() != keep or np.shares_memory(r1, r2) or np.shares_memory(r1, r3):
            ctx.violation(case, "earlier result untouched and not aliased by later calls on the same object",
                          dict(changed=r1.tobytes() != keep, shares=[bool(np.shares_memory(r1, r2)), bool(np.shares_memory(r1, r3))]),
                          "repeated apply(in_place=False) on one Dither object leaves its inputs (incl. earlier results) untouched",
                          tags=dict(tags, clause="not_in_place_pure_reuse"))
        # ... and re-seeding NumPy makes the SAME object repeat itself (reproducibility is a property of the
        # numpy.random.seed state, not of a fresh object)
        np.random.seed(seed)
        r4 = call_apply(obj, x0.copy(), axis, False)
        if r4.tobytes() != keep:
            ctx.violation(case, r1.ravel().tolist()[:20], r4.ravel().tolist()[:20],
                          "same numpy seed => identical output, also on a Dither object that has been used before",
                          tags=dict(tags, clause="reproducible_reuse"))
    # reproducible + in_place gives the same values
    y2 = seeded_dither(P, coeff, x0.copy(), axis, ip, seed)
    if y2.tobytes() != y.tobytes():
        ctx.violation(case, y.ravel().tolist()[:20], y2.ravel().tolist()[:20], "same numpy seed => identical output", tags=dict(tags, clause="reproducible"))
    y3 = seeded_dither(P, coeff, x0.copy(), axis, not ip, seed)
    if y3.tobytes() != y.tobytes():
        ctx.violation(case, y3.ravel().tolist()[:20], y.ravel().tolist()[:20], "in_place=True and in_place=False return the same values",
                      tags=dict(tags, clause="in_place_same_values"))
    if coeff == 0 and y.tobytes() != x0.tobytes():
        ctx.violation(case, x0.ravel().tolist()[:20], y.ravel().tolist()[:20], "coeff 0 is the identity", tags=dict(tags, clause="coeff_zero"))
    # the noise vector, read through the public API: coefficient 1 on a float64 zero signal, same seed / shape / axis
    zeros = np.zeros(shape, dtype=np.float64)
    z = seeded_dither(P, 1.0, zeros, axis, False, seed)
    if not finite_or_violation(ctx, case, z, "dither"):
        return
    # axis semantics: noise is constant along every axis but `axis`
    if axis is not None and len(shape) > 1 and z.size:
        ref = np.moveaxis(z, axis, 0).reshape(shape[axis], -1)
        if not (ref == ref[:, :1]).all():
            ctx.violation(case, "noise constant along the other axes", z.ravel().tolist()[:20], "Dither(axis=k) draws one value per index of axis k",
                          tags=dict(tags, clause="axis_broadcast"))
    # independence from the signal and linearity in coeff (oracle, float64 runs): (y - x)/c is the same vector
    xs = [fr(v) for v in x0.ravel()]
    zs = [fr(v) for v in z.ravel()]
    ys = [fr(v) for v in y.ravel()]
    xa = [fr(v) for v in x.ravel()]
    c = fr(coeff)
    if coeff != 0:
        r = random.Random(case["xseed"] ^ 0x5EED)
        c2 = r.choice([0.5, 2.0, 0.25, 4.0, 3.0, 0.7])
        x2 = make_signal(r.choice(["small", "mid", "ones", "float"]), "float64", shape, case["xseed"] + 1)
        xf = x0.astype(np.float64)
        ya = seeded_dither(P, coeff, xf.copy(), axis, False, seed)
        yb = seeded_dither(P, c2, x2.copy(), axis, False, seed)
        if not (finite_or_violation(ctx, case, ya, "dither") and finite_or_violation(ctx, case, yb, "dither")):
            return
        na = [(fr(a) - fr(b)) / c for a, b in zip(ya.ravel(), xf.ravel())]
        nb = [(fr(a) - fr(b)) / fr(c2) for a, b in zip(yb.ravel(), x2.ravel())]
        for i, (u, v) in enumerate(zip(na, nb)):
            # roundings: y = fl(x + fl(c z)) on each side
            t = EPS * ((abs(fr(xf.ravel()[i])) + abs(c * u)) / c + (abs(fr(x2.ravel()[i])) + abs(fr(c2) * v)) / fr(c2))
            if abs(u - v) > t:
                ctx.violation(dict(case, index=i, coeff2=c2), float(u), float(v),
                              "(y - x)/coeff is the same vector for a different signal and a different coeff (same seed)",
                              tags=dict(tags, clause="noise_independent_linear"))
                break
        # counted only: the stream is NumPy's legacy standard-normal stream
        np.random.seed(seed)
        zref = np.random.standard_normal(z.shape if axis is None or len(shape) <= 1 else [shape[axis] if d == axis % len(shape) else 1 for d in range(len(shape))])
        ctx.count("dither_stream_is_standard_normal" if np.array_equal(np.broadcast_to(zref, z.shape), z) else "dither_stream_other")
    # values: y = cast(x + c z)
    q, tol = dither_exact(xs, zs, c)
    if dtype == "float32":
        tol = [t + (0 if rep32(v) else abs(v) * Fraction(1, 2 ** 24)) for v, t in zip(q, tol)]
    exact = all(t == 0 for t in tol)
    if not exact:
        ctx.gap_cases += 1
    ctx.count("dither_exact" if exact else "dither_tolerance")
    oos = not all(in_range(v, dtype, t) for v, t in zip(q, tol))
    if oos:
        ctx.count("out_of_scope")
    else:
        for i in range(len(xs)):
            if not value_ok(ys[i], q[i], tol[i], dtype):
                ctx.violation(dict(case, index=i), float(trunc(q[i]) if dtype in INT_RANGE else q[i]), float(ys[i]),
                              "y == cast(x + coeff*z), z the noise drawn for coeff 1 on a zero signal (same seed)",
                              tags=dict(tags, clause="dither_shape"))
                break
    lines.append("dither.np %s %d %s %s %s" % (dtype, 1 if ip else 0, common.fbits(coeff),
                                                bits_list([float(v) for v in zs]), bits_list([float(v) for v in xs])))
    pending.append(("dither.np", case, dict(ys=ys, xa=xa, shares=shares, q=q, tol=tol, exact=exact, oos=oos, dtype=dtype)))


# ---------------------------------------------------------------------------------------------
# torch Dither


def torch_dither_case(r):
    coeff = r.choice(DITHER_COEFFS)
    if r.random() < 0.05:
        coeff = -1.0
    return dict(op="dither_torch", dtype=r.choice(["float32", "float64"]), shape=[r.choice([0, 1, 2, 3, 5, 8, 20])],
                coeff=coeff, sig=r.choice(["small", "mid", "ones", "float"]), xseed=r.randrange(2 ** 31),
                seed=r.randrange(2 ** 31), functional=r.random() < 0.3)


def run_torch_dither_case(ctx, case, lines, pending):
    import torch

    P, T = impl(), impl_torch()
    dtype, coeff, seed = case["dtype"], case["coeff"], case["seed"]
    x = make_signal(case["sig"], dtype, case["shape"], case["xseed"])
    n = x.size
    tags = dict(op="dither_torch")
    ctx.case(case, nontrivial=n > 0 and coeff != 0, kind="dither_torch")
    t = torch.from_numpy(x.copy())
    t0 = t.clone()

    def go(cf, sig):
        torch.manual_seed(seed)
        if case["functional"]:
            if cf < 0:
                raise ValueError("functional form has no guard")
            return T.pytorch_dither(sig, cf)
        return T.PyTorchDither.from_dither(P.Dither(cf))(sig)

    if coeff < 0:
        ctx.count("out_of_scope")
        if case["functional"]:
            return
        try:
            go(coeff, t)
            got = "returned"
        except ValueError:
            got = "err:ValueError"
        except Exception as e:
            got = "err:" + type(e).__name__
        lines.append("dither.torch %s %s %s" % (common.fbits(coeff), bits_list([0.0] * n), bits_list([float(v) for v in x])))
        pending.append(("dither.err", case, dict(got=got)))
        return
    y = go(coeff, t)
    if not torch.equal(t, t0):
        ctx.violation(case, "input untouched", t.tolist()[:20], "torch module leaves its input untouched", tags=dict(tags, clause="not_in_place_pure"))
    if str(y.dtype) != "torch." + dtype or list(y.shape) != [n]:
        ctx.violation(case, [dtype, [n]], [str(y.dtype), list(y.shape)], "torch result has the input's dtype and shape", tags=dict(tags, clause="dtype_shape"))
        return
    if not torch.equal(go(coeff, t0.clone()), y):
        ctx.violation(case, y.tolist()[:20], "different", "same torch.manual_seed => identical output", tags=dict(tags, clause="reproducible"))
    if not case["functional"]:
        # one module object, used twice under the same seed
        m = T.PyTorchDither.from_dither(P.Dither(coeff))
        torch.manual_seed(seed)
        a1 = m(t0.clone())
        m(t0.clone())
        torch.manual_seed(seed)
        a2 = m(t0.clone())
        if not torch.equal(a1, a2) or not torch.equal(a1, y):
            ctx.violation(case, a1.tolist()[:20], a2.tolist()[:20],
                          "same torch.manual_seed => identical output, also on a module that has been used before",
                          tags=dict(tags, clause="reproducible_reuse"))
    if coeff == 0 and not torch.equal(y, t0):
        ctx.violation(case, t0.tolist()[:20], y.tolist()[:20], "coeff 0 is the identity", tags=dict(tags, clause="coeff_zero"))
    z = go(1.0, torch.zeros_like(t0))
    if not (finite_or_violation(ctx, case, y.numpy(), "dither_torch") and finite_or_violation(ctx, case, z.numpy(), "dither_torch")):
        return
    xs = [fr(v) for v in t0.tolist()]
    zs = [fr(v) for v in z.tolist()]
    ys = [fr(v) for v in y.tolist()]
    c = fr(coeff)
    if dtype == "float32":
        c32 = fr(np.float32(coeff))
        q = [a + c * g for a, g in zip(xs, zs)]
        tol = [Fraction(0) if (c32 == c and rep32(c * g) and rep32(v)) else EPS32 * (abs(a) + abs(c * g)) for a, g, v in zip(xs, zs, q)]
    else:
        q, tol = dither_exact(xs, zs, c)
    exact = all(v == 0 for v in tol)
    if not exact:
        ctx.gap_cases += 1
    ctx.count("dither_torch_exact" if exact else "dither_torch_tolerance")
    for i in range(n):
        if abs(ys[i] - q[i]) > tol[i]:
            ctx.violation(dict(case, index=i), float(q[i]), float(ys[i]),
                          "torch y == x + coeff*z, z the noise drawn for coeff 1 on a zero signal (same seed)", tags=dict(tags, clause="dither_shape"))
            break
    lines.append("dither.torch %s %s %s" % (common.fbits(coeff), bits_list([float(v) for v in zs]), bits_list([float(v) for v in xs])))
    pending.append(("dither.torch", case, dict(ys=ys, tol=tol, exact=exact)))


# ---------------------------------------------------------------------------------------------
# statistics (residue: sampled, never proved)


def stats_clause(ctx, which, coeff, seed, N=200_000):
    P = impl()
    case = dict(op="stats", impl=which, coeff=coeff, seed=seed, N=N)
    ctx.case(case, kind="stats_" + which)
    if which == "numpy":
        np.random.seed(seed)
        y = P.Dither(coeff).apply(np.zeros(N))
    else:
        import torch

        T = impl_torch()
        torch.manual_seed(seed)
        y = T.PyTorchDither.from_dither(P.Dither(coeff))(torch.zeros(N, dtype=torch.float64)).numpy()
    mean, std = float(y.mean()), float(y.std())
    bound = 6 * coeff / math.sqrt(N)
    if not abs(mean) < bound:
        ctx.violation(case, "|mean| < %g" % bound, mean, "dither noise has zero mean (6 sigma of the sample mean, N=%d)" % N,
                      tags=dict(op="stats_" + which, clause="mean"))
    if not abs(std / coeff - 1) < 0.02:
        ctx.violation(case, "std/coeff within 2%% of 1", std / coeff, "dither noise has standard deviation coeff (N=%d; 2%% is ~12 sigma)" % N,
                      tags=dict(op="stats_" + which, clause="std"))
    # a shape check that separates a Gaussian from other unit-variance noise: mass within one sigma
    frac = float((np.abs(y) < coeff).mean())
    if not abs(frac - 0.682689) < 0.01:
        ctx.violation(case, "P(|n| < coeff) ~ 0.6827", frac, "dither noise is normal: mass within one standard deviation",
                      tags=dict(op="stats_" + which, clause="normal_mass"))


# ---------------------------------------------------------------------------------------------


FIXED_PRE = [
    # the cases a reader would try by hand; all-ones with coeff 1 separates old-value from updated-value recurrences
    dict(op="pre", dtype=d, shape=[n], in_place=ip, axis=None, coeff=c, sig=s, xseed=7)
    for d in DTYPES for n in (0, 1, 2, 3, 5) for ip in (False, True) for c in (0.0, 0.5, 1.0, 0.97) for s in ("ones", "small")
] + [
    # recordings longer than 2**16 samples, in place and not (every run): whatever is processed in blocks must join up on
    # the ORIGINAL samples at every block boundary
    dict(op="pre", dtype="float64", shape=[n], in_place=ip, axis=None, coeff=0.5, sig="small", xseed=9)
    for n in (65537, 70001) for ip in (True, False)
]


def generate(ctx):
    r = ctx.rng
    cases = list(FIXED_PRE)
    for _ in range(ctx.scale(5000, 200000)):
        cases.append(pre_case(r, ctx.tier))
    for _ in range(ctx.scale(1200, 40000)):
        cases.append(torch_pre_case(r))
    for _ in range(ctx.scale(2500, 75000)):
        cases.append(dither_case(r))
    for _ in range(ctx.scale(800, 25000)):
        cases.append(torch_dither_case(r))
    # small first, so that the first witness of a clause is a small one
    cases.sort(key=lambda c: int(np.prod(c["shape"])) if c["shape"] else 0)
    return cases


RUNNERS = {
    "pre": run_pre_case,
    "pre_torch": run_torch_pre_case,
    "dither": run_dither_case,
    "dither_torch": run_torch_dither_case,
}


def check_line(ctx, what, case, info, out):
    if what in ("pre.np", "dither.np"):
        check_np_line(ctx, what, case, info, out)
    elif what in ("pre.torch", "dither.torch"):
        check_torch_line(ctx, what, case, info, out)
    elif what == "dither.err":
        # A negative "standard deviation" is outside the property's quantifier: today's code rejects it
        # (np.random.normal / check_positive raise ValueError) and so does the model, but an implementation that
        # accepted it would not break C18.  Observed and counted, never an alarm.
        ctx.count("dither_negative_coeff_model_%s_impl_%s" % (out, info["got"]))


class _UserArray(np.ndarray):
    """a caller's own ndarray subclass (units, metadata, ...): still an array of samples"""


def special_inputs_phase(ctx):
    """inputs and object histories a random generator does not produce: arrays that are ndarray SUBCLASSES (a user's own
    class, a copy-on-write / read-only `np.memmap`) with `in_place` left False - the input must stay untouched and the result
    is the documented transform; and pre-processors whose documented `coeff` attribute is re-assigned after construction"""
    import tempfile

    P = impl()
    rs = np.random.RandomState(1801)
    base = np.round(rs.randn(64) * 8) / 4          # dyadic values: the recurrence is exact in float64
    tmpd = tempfile.mkdtemp(prefix="pds_c18_", dir="/tmp")
    try:
        path = os.path.join(tmpd, "sig.f64")
        base.tofile(path)
        inputs = [("ndarray subclass", lambda: base.copy().view(_UserArray)),
                  ("memmap mode c", lambda: np.memmap(path, dtype=np.float64, mode="c")),
                  ("memmap mode r", lambda: np.memmap(path, dtype=np.float64, mode="r"))]
        for label, mk in inputs:
            for opname, obj in (("pre", P.Preemphasize(0.5)), ("dither", P.Dither(0.0))):
                case = dict(op=opname + "_special_input", input=label, coeff=obj.coeff, in_place=False, n=len(base))
                ctx.case(case, kind="special_input:" + opname)
                x = mk()
                try:
                    with warnings.catch_warnings():
                        warnings.simplefilter("ignore")
                        y = np.asarray(obj.apply(x))
                except Exception as e:
                    ctx.violation(case, "a result", "%s: %s" % (type(e).__name__, e), "apply(x) with in_place left False returns for every array of samples",
                                  tags=dict(op=opname, clause="raises"))
                    continue
                want = base.copy()
                if opname == "pre":
                    want[1:] = base[1:] - 0.5 * base[:-1]
                if not np.array_equal(np.asarray(x), base) or not np.array_equal(np.fromfile(path, dtype=np.float64), base):
                    ctx.violation(case, "input (and the file behind it) unchanged", "modified", "without in_place the input is left untouched",
                                  tags=dict(op=opname, clause="input_untouched"))
                if y.shape != want.shape or not np.array_equal(y, want):
                    ctx.violation(case, want[:6].tolist(), y[:6].tolist() if y.shape == want.shape else list(y.shape),
                                  "y[0]=x[0], y[i]=x[i]-coeff*x[i-1]" if opname == "pre" else "coeff 0: the signal itself",
                                  tags=dict(op=opname, clause="value"))
    finally:
        shutil.rmtree(tmpd, ignore_errors=True)
    # `in_place` is a truth value: numpy.False_ (the result of a comparison), 0 and None are "not in place" like False
    for falsy in (np.False_, 0, None, np.bool_(False)):
        for opname, obj in (("pre", P.Preemphasize(0.5)), ("dither", P.Dither(1.0))):
            case = dict(op=opname + "_falsy_in_place", in_place=repr(falsy), n=len(base))
            ctx.case(case, kind="falsy_in_place:" + opname)
            x = base.copy()
            try:
                obj.apply(x, in_place=falsy)
            except Exception as e:
                ctx.violation(case, "a result", "%s: %s" % (type(e).__name__, e), "apply accepts a falsy in_place", tags=dict(op=opname, clause="raises"))
                continue
            if not np.array_equal(x, base):
                ctx.violation(case, "input unchanged", "modified", "unless in_place is set (truthy) the input is left untouched",
                              tags=dict(op=opname, clause="input_untouched"))
    # `coeff` is a documented public attribute: an object whose coeff was re-assigned IS the pre-processor with the new value
    for c0, c1 in ((0.97, 0.5), (0.5, 0.0), (0.0, 0.25)):
        p = P.Preemphasize(c0)
        p.apply(base.copy())
        try:
            p.coeff = c1
        except AttributeError:       # the attribute made read-only: nothing to retune
            ctx.count("not_retunable:pre")
            continue
        case = dict(op="pre_retuned", built_with=c0, coeff=c1, n=len(base))
        ctx.case(case, kind="retuned:pre")
        y, want = p.apply(base.copy()), P.Preemphasize(c1).apply(base.copy())
        if not np.array_equal(y, want):
            ctx.violation(case, want[:6].tolist(), y[:6].tolist(), "y[i] = x[i] - coeff*x[i-1] with the object's current coeff",
                          tags=dict(op="pre", clause="value", how="retuned"))
    d = P.Dither(3.0)
    d.apply(base.copy())
    try:
        d.coeff = 0.0
    except AttributeError:
        ctx.count("not_retunable:dither")
        return
    case = dict(op="dither_retuned", built_with=3.0, coeff=0.0, n=len(base))
    ctx.case(case, kind="retuned:dither")
    y = d.apply(base.copy())
    if not np.array_equal(y, base):
        ctx.violation(case, base[:6].tolist(), y[:6].tolist(), "with coeff 0 the signal is returned unchanged (the object's current coeff)",
                      tags=dict(op="dither", clause="value", how="retuned"))


def run(ctx, driver):
    lines, pending = [], []
    special_inputs_phase(ctx)
    for case in generate(ctx):
        if ctx.out_of_time():
            ctx.note("out of time during generation; stopped early")
            break
        RUNNERS[case["op"]](ctx, case, lines, pending)
    # statistics
    r = ctx.rng
    for which in ("numpy", "torch"):
        for _ in range(ctx.scale(2, 8)):
            stats_clause(ctx, which, r.choice([0.5, 1.0, 2.0, 5.0, 0.01, 10 ** r.uniform(-2, 2)]), r.randrange(2 ** 31))
    # correspondence
    outs = []
    CH = 20000
    for i in range(0, len(lines), CH):
        outs += driver.run(lines[i:i + CH])
    ctx.corr_lines += len(lines)
    ctx.count("correspondence_lines", len(lines))
    for (what, case, info), out in zip(pending, outs):
        if out == "bad-op":
            ctx.mismatch(case, out, None, what + ": driver rejected the line")
            continue
        check_line(ctx, what, case, info, out)


def run_oracle_only(ctx):
    lines, pending = [], []
    for case in generate(ctx):
        if ctx.out_of_time():
            break
        RUNNERS[case["op"]](ctx, case, lines, pending)


def replay(rp):
    """Re-run rp['case'] on the implementation, the model (driver) and the oracle; print all three."""
    case = dict(rp.get("case") or {})
    print("case:", common.canon(case))
    case.pop("index", None)
    case.pop("coeff2", None)
    op = case.get("op")
    ctx = common.Ctx(PROP, "quick", 0, 600)
    if op == "stats":
        stats_clause(ctx, case["impl"], case["coeff"], case["seed"], case.get("N", 200_000))
    elif op in RUNNERS:
        lines, pending = [], []
        RUNNERS[op](ctx, case, lines, pending)
        x = make_signal(case["sig"], case["dtype"], case["shape"], case["xseed"])
        print("input:", x.ravel().tolist()[:64])
        if op == "pre":
            P = impl()
            xx = x.copy()
            y = call_apply(P.Preemphasize(case["coeff"]), xx, case["axis"], case["in_place"])
            print("impl : out=%s input_after=%s shares=%s" % (y.ravel().tolist()[:64], xx.ravel().tolist()[:64], np.shares_memory(xx, y)))
        elif op == "dither":
            P = impl()
            xx = x.copy()
            try:
                y = seeded_dither(P, case["coeff"], xx, case["axis"], case["in_place"], case["seed"])
                print("impl : out=%s input_after=%s shares=%s" % (y.ravel().tolist()[:64], xx.ravel().tolist()[:64], np.shares_memory(xx, y)))
            except Exception as e:
                print("impl : %s: %s" % (type(e).__name__, e))
        try:
            outs = common.Driver(PROP).run(lines)
            for (what, _, info), out in zip(pending, outs):
                oc = parse_outcome(out)
                print("model: %s -> %s" % (what, out if oc is None else dict(
                    out=[float(v) for v in oc[0]][:64],
                    input_after=None if oc[1] is None else [float(v) for v in oc[1]][:64], shares=oc[2])))
                check_line(ctx, what, case, info, out)
        except Exception as e:  # the model may be unavailable; the oracle below still decides
            print("model: unavailable (%s)" % e)
    else:
        print("unknown case")
        return 2
    for v in ctx.violations:
        print("oracle: VIOLATED %s expected=%s got=%s" % (v["oracle"], v["expected"], v["got"]))
    for m in ctx.mismatches:
        print("correspondence: MISMATCH %s model=%s impl=%s" % (m["what"], m["model"], m["impl"]))
    if not ctx.violations:
        print("oracle: holds on this case (recorded: %s, expected %s, got %s)" % (rp.get("oracle"), rp.get("expected"), rp.get("got")))
    return 1 if ctx.violations else 0

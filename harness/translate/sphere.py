"""_sphere.py -> lean/PdsVerif/Generated/SphereConsts.lean (property C12).

Purely syntactic (``ast``; the module is never imported here): the two G.711 expansion tables and
every literal the header parser and the uncompressed read loop depend on.  Each literal is found by
the *shape of the expression it sits in* (``len(inpbuf) != <int>``, ``hdrsize < <int>``,
``buf_size = <int>``, ``inporder == <str>`` ...), so a mutated constant, table entry, key name or
slice bound changes the generated definition and the theorems over it are re-checked.  Syntax
outside the expected shapes raises ``Untranslatable`` (the check then reports a translator
fallback); nothing is guessed.
"""
import ast


class Untranslatable(Exception):
    pass


SRC = "src/pydrobert/speech/_sphere.py"


def _func(tree, name):
    for n in tree.body:
        if isinstance(n, ast.FunctionDef) and n.name == name:
            return n
    raise Untranslatable("function %s not found" % name)


def _const(node, typ):
    if isinstance(node, ast.Constant) and type(node.value) is typ:
        return node.value
    if (
        typ is int
        and isinstance(node, ast.UnaryOp)
        and isinstance(node.op, ast.USub)
        and isinstance(node.operand, ast.Constant)
        and type(node.operand.value) is int
    ):
        return -node.operand.value
    raise Untranslatable("expected %s literal, got %s" % (typ.__name__, ast.dump(node)[:80]))


def _name(node):
    return node.id if isinstance(node, ast.Name) else None


def _one(xs, what):
    xs = list(xs)
    if len(xs) != 1:
        raise Untranslatable("%s: expected exactly one match, found %d" % (what, len(xs)))
    return xs[0]


def _compares(fn, left_pred, op_type):
    for n in ast.walk(fn):
        if isinstance(n, ast.Compare) and len(n.ops) == 1 and isinstance(n.ops[0], op_type) and left_pred(n.left):
            yield n


def _is_call(node, fname, argname=None):
    return (
        isinstance(node, ast.Call)
        and _name(node.func) == fname
        and (argname is None or (len(node.args) == 1 and _name(node.args[0]) == argname))
    )


def _prefix_slice(node, var):
    """``var[:k]`` -> k"""
    if (
        isinstance(node, ast.Subscript)
        and _name(node.value) == var
        and isinstance(node.slice, ast.Slice)
        and node.slice.lower is None
        and node.slice.step is None
        and node.slice.upper is not None
    ):
        return _const(node.slice.upper, int)
    return None


def _split_index(node, var):
    """``var.split(<bytes>)[i]`` or ``var.split(<bytes>)[i:]`` -> (sep, i, is_slice)"""
    if not isinstance(node, ast.Subscript):
        return None
    c = node.value
    if not (
        isinstance(c, ast.Call)
        and isinstance(c.func, ast.Attribute)
        and c.func.attr == "split"
        and _name(c.func.value) == var
        and len(c.args) == 1
    ):
        return None
    sep = _const(c.args[0], bytes)
    if isinstance(node.slice, ast.Slice):
        if node.slice.upper is not None or node.slice.step is not None or node.slice.lower is None:
            raise Untranslatable("unexpected slice on split()")
        return sep, _const(node.slice.lower, int), True
    return sep, _const(node.slice, int), False


def table(tree, name):
    for n in tree.body:
        if isinstance(n, ast.Assign) and len(n.targets) == 1 and _name(n.targets[0]) == name:
            c = n.value
            if not (isinstance(c, ast.Call) and isinstance(c.func, ast.Attribute) and c.func.attr == "array"):
                raise Untranslatable("%s is not an np.array(...) literal" % name)
            if len(c.args) != 1 or not isinstance(c.args[0], ast.List):
                raise Untranslatable("%s: np.array argument is not a list literal" % name)
            dt = [k for k in c.keywords if k.arg == "dtype"]
            if len(dt) != 1 or not (isinstance(dt[0].value, ast.Attribute) and dt[0].value.attr == "int16"):
                raise Untranslatable("%s: dtype is not np.int16" % name)
            vals = [_const(e, int) for e in c.args[0].elts]
            # np.array(..., dtype=np.int16) of an out-of-range literal raises under NumPy 2: not a table
            if any(not (-32768 <= v <= 32767) for v in vals):
                raise Untranslatable("%s: entry outside int16" % name)
            return vals
    raise Untranslatable("table %s not found" % name)


def extract(repo):
    """All literals as a plain dict (also used by the harness to cross-check the imported module)."""
    tree = ast.parse(open(repo + "/" + SRC).read())
    out = {}
    out["ULAW2PCM"] = table(tree, "ULAW2PCM")
    out["ALAW2PCM"] = table(tree, "ALAW2PCM")

    # ---- read_header -------------------------------------------------------------------
    rh = _func(tree, "read_header")
    reads = [
        n
        for n in ast.walk(rh)
        if isinstance(n, ast.Call)
        and isinstance(n.func, ast.Attribute)
        and n.func.attr == "read"
        and len(n.args) == 1
        and isinstance(n.args[0], ast.Constant)
    ]
    out["HDR_READ"] = _const(_one(reads, "file_.read(<int>) in read_header").args[0], int)
    c = _one(_compares(rh, lambda l: _is_call(l, "len", "inpbuf"), ast.NotEq), "len(inpbuf) != <int>")
    out["HDR_LEN"] = _const(c.comparators[0], int)
    c = _one(_compares(rh, lambda l: _prefix_slice(l, "inpbuf") is not None, ast.NotEq), "inpbuf[:k] != <magic>")
    out["MAGIC_LEN"] = _prefix_slice(c.left, "inpbuf")
    out["MAGIC"] = list(_const(c.comparators[0], bytes))
    c = _one(_compares(rh, lambda l: _name(l) == "hdrsize", ast.Lt), "hdrsize < <int>")
    out["HDR_MIN"] = _const(c.comparators[0], int)
    splits = [s for s in (_split_index(n, "inpbuf") for n in ast.walk(rh)) if s]
    idx = _one([s for s in splits if not s[2]], "inpbuf.split(sep)[i]")
    sl = _one([s for s in splits if s[2]], "inpbuf.split(sep)[i:]")
    if idx[0] != sl[0] or len(idx[0]) != 1:
        raise Untranslatable("header line separators differ or are not one byte")
    out["LINE_SEP"] = idx[0][0]
    out["SIZE_LINE_INDEX"] = idx[1]
    out["FIELDS_FROM"] = sl[1]
    if out["SIZE_LINE_INDEX"] < 0 or out["FIELDS_FROM"] < 0:
        raise Untranslatable("negative line index")
    ends = {bytes(_const(c.comparators[0], bytes)) for c in _compares(rh, lambda l: _name(l) == "field", (ast.Eq, ast.NotEq))}
    out["END_HEAD"] = list(_one(ends, "field ==/!= <end marker>"))
    c = _one(_compares(rh, lambda l: _name(l) == "fmt", ast.Eq), 'fmt == "-i"')
    out["INT_FMT"] = list(_const(c.comparators[0], str).encode("ascii"))
    # key == "<name>" chain: which variable each key sets
    keys = {}
    for n in ast.walk(rh):
        if isinstance(n, ast.If) and isinstance(n.test, ast.Compare) and _name(n.test.left) == "key":
            if len(n.test.ops) != 1 or not isinstance(n.test.ops[0], ast.Eq):
                raise Untranslatable("key comparison is not ==")
            k = _const(n.test.comparators[0], str)
            tgt = {
                _name(a.targets[0])
                for b in n.body
                for a in ast.walk(b)
                if isinstance(a, ast.Assign) and len(a.targets) == 1 and _name(a.targets[0])
            }
            tgt = _one(tgt, "variable set by key %r" % k)
            if tgt in keys:
                raise Untranslatable("variable %s set by two keys" % tgt)
            keys[tgt] = list(k.encode("ascii"))
    want = {"chancount", "sampcount", "samprate", "sampsize", "inporder", "samptype"}
    if set(keys) != want:
        raise Untranslatable("header keys set %s, expected %s" % (sorted(keys), sorted(want)))
    out["KEYS"] = keys
    sets = [
        n
        for n in ast.walk(rh)
        if isinstance(n, ast.For) and isinstance(n.iter, ast.Set) and _name(n.target) == "prefix"
    ]
    pf = _one(sets, "for prefix in {...}")
    starts = [
        n
        for n in ast.walk(pf)
        if isinstance(n, ast.Call) and isinstance(n.func, ast.Attribute) and n.func.attr == "startswith"
    ]
    _one(starts, "value.startswith(prefix)")
    prefixes = sorted(_const(e, str) for e in pf.iter.elts)
    for a in prefixes:
        for b in prefixes:
            if a != b and a.startswith(b):
                raise Untranslatable("coding prefixes %r/%r overlap: set iteration order would matter" % (a, b))
    out["CODING_PREFIXES"] = [list(p.encode("ascii")) for p in prefixes]
    c = _one(_compares(rh, lambda l: _name(l) == "sampsize", ast.Eq), "sampsize == <int> (pcm default)")
    out["PCM_DEFAULT_SIZE"] = _const(c.comparators[0], int)
    c = _one(_compares(rh, lambda l: _is_call(l, "len", "inporder"), ast.Eq), "len(inporder) == <int>")
    out["PCM_DEFAULT_ORDER_LEN"] = _const(c.comparators[0], int)
    c = _one(_compares(rh, lambda l: _name(l) == "samptype", ast.Eq), 'samptype == "pcm"')
    out["PCM_NAME"] = list(_const(c.comparators[0], str).encode("ascii"))
    pcm_assign = [
        n
        for n in ast.walk(rh)
        if isinstance(n, ast.Assign) and _name(n.targets[0]) == "samptype" and isinstance(n.value, ast.Constant)
        and isinstance(n.value.value, str)
    ]
    out["PCM_DEFAULT_NAME"] = list(_const(_one(pcm_assign, 'samptype = "pcm"').value, str).encode("ascii"))

    # ---- copy_samples ------------------------------------------------------------------
    cs = _func(tree, "copy_samples")
    bs = [
        n
        for n in ast.walk(cs)
        if isinstance(n, ast.Assign) and len(n.targets) == 1 and _name(n.targets[0]) == "buf_size"
    ]
    out["BUF_SIZE"] = _const(_one(bs, "buf_size = <int>").value, int)
    rd = [
        n
        for n in ast.walk(cs)
        if isinstance(n, ast.Call) and isinstance(n.func, ast.Attribute) and n.func.attr == "read"
    ]
    r = _one(rd, "file_.read(...) in copy_samples")
    if not (len(r.args) == 1 and _name(r.args[0]) == "buf_size"):
        raise Untranslatable("copy loop does not read buf_size bytes")
    # sampsize == 1 / 2 / 4 -> np.uint8 / np.int16 / np.int32
    kinds = {"uint8": (1, False), "int8": (1, True), "int16": (2, True), "uint16": (2, False), "int32": (4, True),
             "uint32": (4, False), "int64": (8, True), "uint64": (8, False)}
    in_types = []
    for n in ast.walk(cs):
        if isinstance(n, ast.If) and isinstance(n.test, ast.Compare) and _name(n.test.left) == "sampsize" \
                and len(n.test.ops) == 1 and isinstance(n.test.ops[0], ast.Eq):
            size = _const(n.test.comparators[0], int)
            a = _one([b for b in n.body if isinstance(b, ast.Assign) and _name(b.targets[0]) == "in_type"],
                     "in_type assignment for sampsize == %d" % size)
            if not (isinstance(a.value, ast.Attribute) and a.value.attr in kinds):
                raise Untranslatable("in_type for sampsize == %d is not an integer numpy type" % size)
            in_types.append((size,) + kinds[a.value.attr])
    if not in_types:
        raise Untranslatable("no sampsize == <int> chain")
    out["IN_TYPES"] = in_types
    c = _one(_compares(cs, lambda l: _name(l) == "inporder", ast.Eq), "inporder == <str>")
    out["BE_FLAG"] = list(_const(c.comparators[0], str).encode("ascii"))
    c = _one(_compares(cs, lambda l: _prefix_slice(l, "inpbuf") is not None, ast.Eq), "inpbuf[:k] == <shorten magic>")
    out["SHN_MAGIC_LEN"] = _prefix_slice(c.left, "inpbuf")
    out["SHN_MAGIC"] = list(_const(c.comparators[0], bytes))
    # default output type of the two companded codings
    dflt = [
        n
        for n in ast.walk(cs)
        if isinstance(n, ast.Assign) and _name(n.targets[0]) == "dtype" and isinstance(n.value, ast.Attribute)
    ]
    d = _one(dflt, "dtype = np.<type> default")
    if d.value.attr not in kinds:
        raise Untranslatable("default dtype is not an integer numpy type")
    out["G711_DEFAULT_DTYPE"] = kinds[d.value.attr]
    return out


def _nat(v):
    if v < 0:
        raise Untranslatable("negative literal where a size is expected")
    return str(v)


def _bytes(bs, comment=None):
    s = "[" + ", ".join(str(b) for b in bs) + "]"
    if comment is None:
        try:
            comment = bytes(bs).decode("ascii")
        except Exception:
            comment = None
    return s + ("  -- %r" % comment if comment is not None else "")


def _ints(vals, per=12):
    rows = []
    for i in range(0, len(vals), per):
        rows.append("  " + ", ".join(("(%d)" % v) if v < 0 else str(v) for v in vals[i : i + per]))
    return "[\n" + ",\n".join(rows) + "\n]"


def generate(repo):
    e = extract(repo)
    L = []
    L.append(
        "/- GENERATED by harness/translate/sphere.py from %s -- do not edit; regenerated on every check. -/" % SRC
    )
    L.append("namespace PdsVerif.Gen.Sphere\n")
    L.append("/-- `ULAW2PCM` (np.int16 literal table, %d entries) -/" % len(e["ULAW2PCM"]))
    L.append("def ULAW2PCM : List Int := " + _ints(e["ULAW2PCM"]) + "\n")
    L.append("/-- `ALAW2PCM` (np.int16 literal table, %d entries) -/" % len(e["ALAW2PCM"]))
    L.append("def ALAW2PCM : List Int := " + _ints(e["ALAW2PCM"]) + "\n")
    L.append("/-! ### `read_header` -/")
    L.append("/-- `file_.read(<n>)` -/\ndef HDR_READ : Nat := " + _nat(e["HDR_READ"]))
    L.append("/-- `len(inpbuf) != <n>` -/\ndef HDR_LEN : Nat := " + _nat(e["HDR_LEN"]))
    L.append("/-- `inpbuf[:<k>] != <magic>` -/\ndef MAGIC_LEN : Nat := " + _nat(e["MAGIC_LEN"]))
    L.append("def MAGIC : List Nat := " + _bytes(e["MAGIC"]))
    L.append("/-- `hdrsize < <n>` raises -/\ndef HDR_MIN : Int := %d" % e["HDR_MIN"])
    L.append("/-- separator of `inpbuf.split(...)` -/\ndef LINE_SEP : Nat := " + _nat(e["LINE_SEP"]))
    L.append("/-- `int(inpbuf.split(sep)[<i>])` -/\ndef SIZE_LINE_INDEX : Nat := " + _nat(e["SIZE_LINE_INDEX"]))
    L.append("/-- `for field in inpbuf.split(sep)[<i>:]` -/\ndef FIELDS_FROM : Nat := " + _nat(e["FIELDS_FROM"]))
    L.append("def END_HEAD : List Nat := " + _bytes(e["END_HEAD"]))
    L.append("/-- `fmt == <s>` converts the value with `int` -/\ndef INT_FMT : List Nat := " + _bytes(e["INT_FMT"]))
    for var in ("chancount", "sampcount", "samprate", "sampsize", "inporder", "samptype"):
        L.append("/-- the header key that sets `%s` -/\ndef KEY_%s : List Nat := %s" % (var, var, _bytes(e["KEYS"][var])))
    L.append(
        "/-- `for prefix in {...}: if value.startswith(prefix)` (sorted; the prefixes are pairwise non-overlapping) -/"
    )
    L.append(
        "def CODING_PREFIXES : List (List Nat) := [\n"
        + ",\n".join("  " + _bytes(p, None).split("  --")[0] for p in e["CODING_PREFIXES"])
        + "\n]  -- "
        + ", ".join(bytes(p).decode() for p in e["CODING_PREFIXES"])
    )
    L.append("/-- `samptype == <s>` (byte order mandatory) -/\ndef PCM_NAME : List Nat := " + _bytes(e["PCM_NAME"]))
    L.append("/-- `samptype = <s>` default -/\ndef PCM_DEFAULT_NAME : List Nat := " + _bytes(e["PCM_DEFAULT_NAME"]))
    L.append("/-- `sampsize == <n>` implies pcm -/\ndef PCM_DEFAULT_SIZE : Int := %d" % e["PCM_DEFAULT_SIZE"])
    L.append("/-- `len(inporder) == <n>` implies pcm -/\ndef PCM_DEFAULT_ORDER_LEN : Nat := " + _nat(e["PCM_DEFAULT_ORDER_LEN"]))
    L.append("\n/-! ### `copy_samples` -/")
    L.append("/-- `buf_size = <n>`; every read asks for this many bytes -/\ndef BUF_SIZE : Nat := " + _nat(e["BUF_SIZE"]))
    L.append("/-- `sampsize == <n>` -> input item (bytes, signed) -/")
    L.append(
        "def IN_TYPES : List (Int × Nat × Bool) := ["
        + ", ".join("(%d, %d, %s)" % (s, b, "true" if sg else "false") for s, b, sg in e["IN_TYPES"])
        + "]"
    )
    L.append("/-- `inporder == <s>` selects big-endian -/\ndef BE_FLAG : List Nat := " + _bytes(e["BE_FLAG"]))
    L.append("/-- `inpbuf[:<k>] == <magic>` hands over to the shorten decoder -/\ndef SHN_MAGIC_LEN : Nat := " + _nat(e["SHN_MAGIC_LEN"]))
    L.append("def SHN_MAGIC : List Nat := " + _bytes(e["SHN_MAGIC"]))
    L.append(
        "/-- default output item of alaw / ulaw (bytes, signed) -/\ndef G711_DEFAULT_DTYPE : Nat × Bool := (%d, %s)"
        % (e["G711_DEFAULT_DTYPE"][0], "true" if e["G711_DEFAULT_DTYPE"][1] else "false")
    )
    L.append("\nend PdsVerif.Gen.Sphere\n")
    return {"SphereConsts.lean": "\n".join(L)}, e

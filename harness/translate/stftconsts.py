"""compute.py / torch.py framing arithmetic -> lean/PdsVerif/Generated/StftConsts.lean  (C01, C02, C04, C14).

A small symbolic executor for the straight-line *integer* code at the head of
`STFTFrameComputer.compute_chunk / finalize / compute_full` and `pytorch_stft_frame_computer`:
assignments, augmented assignments, `if/elif/else` over the configuration flags, `max`, `//`, `+ - *`.
It stops at the first loop.  Every tracked variable becomes a Lean term over `Int` (Python ints are unbounded;
`//` is floor division, which is Lean's `Int.fdiv`; the theorems show the model's `Nat` arithmetic agrees).
Anything outside the subset raises `Untranslatable` - the translator never guesses.
"""
import ast

from .pyexpr import Untranslatable, find_class, find_func, dotted


class Sym:
    """symbolic executor state: var -> (kind, lean term), kind in {'i','b'}"""

    def __init__(self, env):
        self.env = dict(env)

    # ---- expressions -------------------------------------------------------------------------
    def ex(self, e):
        if isinstance(e, ast.Constant):
            if isinstance(e.value, bool):
                return ("b", "true" if e.value else "false")
            if isinstance(e.value, int):
                return ("i", "(%d : Int)" % e.value)
            raise Untranslatable("constant %r" % (e.value,))
        if isinstance(e, (ast.Name, ast.Attribute)):
            d = dotted(e)
            if d in self.env:
                return self.env[d]
            raise Untranslatable("unknown name " + d)
        if isinstance(e, ast.Call):
            f = dotted(e.func)
            if f == "len" and len(e.args) == 1:
                d = "len(%s)" % dotted(e.args[0])
                if d in self.env:
                    return self.env[d]
                raise Untranslatable("unknown " + d)
            if f == "max" and len(e.args) == 2:
                a, b = self.int(e.args[0]), self.int(e.args[1])
                return ("i", "(max %s %s)" % (a, b))
            if f in ("sig.size",) and len(e.args) == 1:
                return self.env["sig_len"]
            raise Untranslatable("call " + f)
        if isinstance(e, ast.BinOp):
            a, b = self.int(e.left), self.int(e.right)
            op = {ast.Add: "+", ast.Sub: "-", ast.Mult: "*"}.get(type(e.op))
            if op:
                return ("i", "(%s %s %s)" % (a, op, b))
            if isinstance(e.op, ast.FloorDiv):
                return ("i", "(Int.fdiv %s %s)" % (a, b))
            raise Untranslatable("binop " + type(e.op).__name__)
        if isinstance(e, ast.UnaryOp) and isinstance(e.op, ast.Not):
            return ("b", "(!%s)" % self.bool(e.operand))
        if isinstance(e, ast.UnaryOp) and isinstance(e.op, ast.USub):
            return ("i", "(-%s)" % self.int(e.operand))
        if isinstance(e, ast.BoolOp):
            op = " && " if isinstance(e.op, ast.And) else " || "
            return ("b", "(" + op.join(self.bool(v) for v in e.values) + ")")
        if isinstance(e, ast.Compare) and len(e.ops) == 1:
            l, r, op = e.left, e.comparators[0], e.ops[0]
            # style tests:  self._frame_style == "causal" / "centered"
            if isinstance(r, ast.Constant) and isinstance(r.value, str):
                k, t = self.ex(l)
                if k != "style":
                    raise Untranslatable("string comparison on non-style")
                if isinstance(op, ast.Eq):
                    return ("b", {"causal": "(!centered)", "centered": "centered"}[r.value])
                raise Untranslatable("style comparison op")
            a, b = self.int(l), self.int(r)
            sym = {ast.Lt: "<", ast.LtE: "≤", ast.Gt: ">", ast.GtE: "≥", ast.Eq: "=="}.get(type(op))
            if sym is None:
                raise Untranslatable("compare op")
            if sym == "==":
                return ("b", "(%s == %s)" % (a, b))
            return ("b", "(decide (%s %s %s))" % (a, sym, b))
        raise Untranslatable(ast.dump(e)[:80])

    def int(self, e):
        k, t = self.ex(e)
        if k == "b":  # Python: bool is an int
            return "(if %s then (1:Int) else 0)" % t
        if k != "i":
            raise Untranslatable("expected int")
        return t

    def bool(self, e):
        k, t = self.ex(e)
        if k == "i":  # truthiness of an int
            return "(%s != 0)" % t
        if k != "b":
            raise Untranslatable("expected bool")
        return t

    # ---- statements --------------------------------------------------------------------------
    def run(self, stmts, stop_at=None):
        """execute until a loop / return / the statement `stop_at(stmt)` says stop. Returns the stopping stmt."""
        for s in stmts:
            if stop_at is not None and stop_at(s):
                return s
            if isinstance(s, ast.Expr) and isinstance(s.value, ast.Constant):
                continue
            if isinstance(s, ast.Assign) and len(s.targets) == 1:
                t = s.targets[0]
                if isinstance(t, (ast.Name, ast.Attribute)):
                    name = dotted(t)
                    try:
                        self.env[name] = self.ex(s.value)
                    except Untranslatable:
                        self.env.pop(name, None)  # not arithmetic we track (arrays, dtypes, ...)
                    continue
                if isinstance(t, ast.Tuple):
                    for el in t.elts:
                        self.env.pop(dotted(el), None)
                    continue
                continue
            if isinstance(s, ast.AugAssign) and isinstance(s.target, (ast.Name, ast.Attribute)):
                name = dotted(s.target)
                if name not in self.env:
                    continue
                k, cur = self.env[name]
                if isinstance(s.op, ast.BitAnd) and k == "b":
                    self.env[name] = ("b", "(%s && %s)" % (cur, self.bool(s.value)))
                elif k == "i" and type(s.op) in (ast.Add, ast.Sub, ast.Mult, ast.FloorDiv):
                    fake = ast.BinOp(left=s.target, op=s.op, right=s.value)
                    self.env[name] = self.ex(fake)
                else:
                    raise Untranslatable("augassign on " + name)
                continue
            if isinstance(s, ast.If):
                try:
                    c = self.bool(s.test)
                except Untranslatable:
                    return s  # a test we do not understand: stop here
                if any(isinstance(b, (ast.Return, ast.Raise)) for b in s.body) and not s.orelse:
                    # guard: record it, continue on the fall-through path
                    self.env.setdefault("__guards__", ("g", []))[1].append(c)
                    continue
                a, b = Sym(self.env), Sym(self.env)
                ra, rb = a.run(s.body, stop_at), b.run(s.orelse, stop_at)
                if ra is not None or rb is not None:
                    return s
                for name in set(a.env) | set(b.env):
                    if name == "__guards__":
                        continue
                    va, vb = a.env.get(name), b.env.get(name)
                    if va is None or vb is None:
                        self.env.pop(name, None)
                    elif va == vb:
                        self.env[name] = va
                    elif va[0] == vb[0]:
                        self.env[name] = (va[0], "(if %s then %s else %s)" % (c, va[1], vb[1]))
                    else:
                        self.env.pop(name, None)
                continue
            if isinstance(s, (ast.For, ast.While, ast.Return)):
                return s
            if isinstance(s, (ast.Assert, ast.Expr, ast.Delete)):
                continue
            raise Untranslatable("statement " + type(s).__name__)
        return None


HEADER = """/- GENERATED by harness/translate/stftconsts.py from src/pydrobert/speech/compute.py and torch.py
   -- do not edit; regenerated on every check.  Integer framing arithmetic of the STFT computers, as `Int` terms. -/
namespace PdsVerif.Gen.StftConsts
"""

CFG_ENV = {
    "self._frame_length": ("i", "L"), "self._frame_shift": ("i", "S"),
    "self._frame_style": ("style", None), "self._kaldi_shift": ("b", "kaldi"),
    "self._first_frame": ("b", "first"), "self._buf_len": ("i", "bufLen"),
    "self.started": ("b", "started"),
}


def emit(name, params, kind, term):
    ty = "Int" if kind == "i" else "Bool"
    return "def %s %s : %s :=\n  %s\n" % (name, params, ty, term)


def generate(repo):
    out = [HEADER]
    tree = ast.parse(open(repo + "/src/pydrobert/speech/compute.py").read())
    cls = find_class(tree, "ShortTimeFourierTransformFrameComputer")
    P = "(L S : Int) (centered kaldi : Bool)"
    # ---- compute_full
    f = find_func(cls, "compute_full")
    st = Sym(dict(CFG_ENV, **{"len(signal)": ("i", "N")}))
    st.env["self.started"] = ("b", "false")
    st.run(f.body, stop_at=lambda s: isinstance(s, ast.If) and isinstance(s.test, ast.BoolOp) and isinstance(s.test.op, ast.Or))
    guards = st.env.get("__guards__", ("g", []))[1]
    if len(guards) != 2:
        raise Untranslatable("compute_full: expected the `started` and the too-short guard, got %d" % len(guards))
    out.append(emit("full_short", P + " (N : Int)", "b", guards[1]))
    for v in ("pad_left", "num_frames", "total_len", "pad_right"):
        if v not in st.env:
            raise Untranslatable("compute_full: lost track of " + v)
        out.append(emit("full_" + v, P + " (N : Int)", *st.env[v]))
    # ---- finalize
    f = find_func(cls, "finalize")
    st = Sym(dict(CFG_ENV))
    stop = st.run(f.body, stop_at=lambda s: isinstance(s, ast.If) and isinstance(s.test, ast.Compare)
                  and dotted(s.test.left) == "num_frames" and isinstance(s.test.ops[0], ast.GtE))
    if stop is None:
        raise Untranslatable("finalize: `if num_frames >= 1` not found")
    PF = P + " (first : Bool) (bufLen : Int)"
    for v in ("pad_left", "num_frames"):
        if v not in st.env:
            raise Untranslatable("finalize: lost track of " + v)
        out.append(emit("fin_" + v, PF, *st.env[v]))
    inner = Sym(st.env)
    inner.run(stop.body)
    if "pad_right" not in inner.env:
        raise Untranslatable("finalize: lost track of pad_right")
    out.append(emit("fin_pad_right", PF, *inner.env["pad_right"]))
    # ---- compute_chunk
    f = find_func(cls, "compute_chunk")
    st = Sym(dict(CFG_ENV, **{"len(chunk)": ("i", "chunkLen")}))
    st.run(f.body)
    PC = P + " (first : Bool) (bufLen chunkLen : Int)"
    for v in ("frame_length", "num_frames"):
        if v not in st.env:
            raise Untranslatable("compute_chunk: lost track of " + v)
        out.append(emit("chunk_" + v, PC, *st.env[v]))
    # the two reflected-first-frame pad widths: np.pad(frame, (W, 0), 'symmetric')
    pads = []
    for node in ast.walk(f):
        if isinstance(node, ast.Call) and dotted(node.func) == "np.pad" and len(node.args) >= 2 and isinstance(node.args[1], ast.Tuple):
            pads.append(node.args[1].elts[0])
    if len(pads) != 2:
        raise Untranslatable("compute_chunk: expected two np.pad calls")
    env2 = dict(CFG_ENV, frame_length=("i", "L"))
    out.append(emit("chunk_first_pad_kaldi", "(L S : Int)", *Sym(env2).ex(pads[0])))
    out.append(emit("chunk_first_pad_plain", "(L S : Int)", *Sym(env2).ex(pads[1])))
    # ---- torch port
    ttree = ast.parse(open(repo + "/src/pydrobert/speech/torch.py").read())
    tf = find_func(ttree, "pytorch_stft_frame_computer")
    st = Sym({"frame_length": ("i", "L"), "frame_shift": ("i", "S"), "centered": ("b", "centered"),
              "kaldi_shift": ("b", "kaldi"), "sig_len": ("i", "N")})
    # start at `sig_len = sig.size(0)`
    body = tf.body
    start = next(i for i, s in enumerate(body) if isinstance(s, ast.Assign) and dotted(s.targets[0]) == "sig_len")
    st.run(body[start + 1:], stop_at=lambda s: isinstance(s, ast.If) and isinstance(s.test, ast.BoolOp))
    guards = st.env.get("__guards__", ("g", []))[1]
    if len(guards) != 2:
        raise Untranslatable("torch: expected the too-short and the zero-frame guard, got %d" % len(guards))
    out.append(emit("torch_short", P + " (N : Int)", "b", guards[0]))
    out.append(emit("torch_no_frame", P + " (N : Int)", "b", guards[1]))
    for v in ("pad_left", "num_frames", "total_len", "pad_right"):
        if v not in st.env:
            raise Untranslatable("torch: lost track of " + v)
        out.append(emit("torch_" + v, P + " (N : Int)", *st.env[v]))
    out.append("end PdsVerif.Gen.StftConsts\n")
    return {"StftConsts.lean": "\n".join(out)}

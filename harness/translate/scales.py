"""scales.py -> lean/PdsVerif/Generated/Scales.lean (property C19, used by C05)."""
import ast
from . import pyexpr
from .pyexpr import Expr, Untranslatable

CLASSES = [
    ("LinearScaling", "linear"),
    ("OctaveScaling", "octave"),
    ("MelScaling", "mel"),
    ("BarkScaling", "bark"),
]


def generate(repo):
    src = repo + "/src/pydrobert/speech/scales.py"
    tree = ast.parse(open(src).read())
    out = [pyexpr.HEADER.format(src="src/pydrobert/speech/scales.py", ns="Scales")]
    meta = {}
    for cls, short in CLASSES:
        c = pyexpr.find_class(tree, cls)
        for meth, suffix, arg in (
            ("hertz_to_scale", "h2s", "hertz"),
            ("scale_to_hertz", "s2h", "scale"),
        ):
            f = pyexpr.find_func(c, meth)
            argname = f.args.args[1].arg
            ex = Expr()
            body = ex.body(f.body)
            params = sorted(ex.selfattrs)
            meta[short + "_" + suffix] = params
            sig = "".join(" (%s : α)" % p for p in params)
            out.append(
                "/-- `%s.%s` -/\ndef %s_%s%s (%s : α) : α :=\n  %s\n"
                % (cls, meth, short, suffix, sig, argname, body)
            )
    # OctaveScaling.__init__ guard: `if low_hz <= 0: raise ValueError`
    init = pyexpr.find_func(pyexpr.find_class(tree, "OctaveScaling"), "__init__")
    guard = None
    for s in init.body:
        if isinstance(s, ast.If) and any(isinstance(b, ast.Raise) for b in s.body):
            guard = Expr().cond(s.test)
    if guard is None:
        raise Untranslatable("OctaveScaling.__init__ has no raising guard")
    out.append(
        "/-- `OctaveScaling.__init__` raises `ValueError` exactly when this holds. -/\n"
        "def octave_ctor_rejects (low_hz : α) : Prop :=\n  %s\n" % guard
    )
    out.append("end PdsVerif.Gen.Scales\n")
    return {"Scales.lean": "\n".join(out)}, meta

"""util.py + the window classes of filters.py -> lean/PdsVerif/Generated/UtilFns.lean (property C20).

What is regenerated from the source text on every run:

* ``hertz_to_angular`` / ``angular_to_hertz``: the whole body;
* ``_gauss_quant_odeh_evans``: the whole body (tail cut-off, every coefficient, both sign flips);
* ``BartlettWindow`` / ``BlackmanWindow`` / ``HammingWindow`` / ``HannWindow``: which NumPy shape is
  called and the expression the shape is divided by (``0.42 * max(1, width - 1)`` ...);
* ``GammaWindow.get_impulse_response``: ``alpha`` (both branches and the branch test), ``offs``,
  ``ln_c`` and the per-sample kernel ``t ** (order-1) * exp(-alpha * t + ln_c)``.

The subset of Python understood is that of ``pyexpr`` plus (this file, by subclassing): conditional
expressions, augmented assignments, ``if`` statements whose branches are statement blocks assigning
one common variable, ``if`` without ``else``, the slice ``ret[:offs]`` read as the sample's time
variable, and ``math.factorial(self.order - 1)`` read as an opaque parameter.  Anything else raises
``Untranslatable``; nothing is guessed.
"""
import ast

from . import pyexpr
from .pyexpr import Expr, Untranslatable

UTIL = "src/pydrobert/speech/util.py"
FILTERS = "src/pydrobert/speech/filters.py"

AUG = {ast.Add: "+", ast.Sub: "-", ast.Mult: "*", ast.Div: "/"}


class Expr2(Expr):
    """pyexpr.Expr + the extra syntax named in the module docstring."""

    def __init__(self, selfattrs=None, rename=None, subscripts=None, opaque_calls=None):
        super().__init__(selfattrs, rename)
        self.subscripts = subscripts or {}  # ast.unparse(text) -> lean name
        self.opaque_calls = opaque_calls or {}  # ast.unparse(text) -> lean name
        self.used_opaque = []

    def tr(self, e):
        if isinstance(e, ast.IfExp):
            return "(if %s then %s else %s)" % (self.cond(e.test), self.tr(e.body), self.tr(e.orelse))
        if isinstance(e, ast.Subscript):
            key = ast.unparse(e)
            if key in self.subscripts:
                return self.subscripts[key]
            raise Untranslatable("subscript " + key)
        if isinstance(e, ast.Call):
            key = ast.unparse(e)
            if key in self.opaque_calls:
                nm = self.opaque_calls[key]
                if nm not in self.used_opaque:
                    self.used_opaque.append(nm)
                return nm
        return super().tr(e)

    # ---- statements ------------------------------------------------------------------------
    @staticmethod
    def strip_doc(stmts):
        return [s for s in stmts if not (isinstance(s, ast.Expr) and isinstance(s.value, ast.Constant))]

    @staticmethod
    def assigned(stmts):
        out = []
        for s in stmts:
            if isinstance(s, ast.Assign) and len(s.targets) == 1 and isinstance(s.targets[0], ast.Name):
                out.append(s.targets[0].id)
            elif isinstance(s, ast.AugAssign) and isinstance(s.target, ast.Name):
                out.append(s.target.id)
            elif isinstance(s, ast.If):
                a, b = Expr2.assigned(s.body), Expr2.assigned(s.orelse)
                out += [n for n in a if n in b or not s.orelse]
            else:
                raise Untranslatable("statement " + type(s).__name__)
        return out

    def block(self, stmts, tail=None):
        """Statement list -> Lean term. The value is the `return` expression, or variable `tail`."""
        stmts = self.strip_doc(stmts)
        out = []
        for i, s in enumerate(stmts):
            if isinstance(s, ast.Return):
                if tail is not None or i != len(stmts) - 1 or s.value is None:
                    raise Untranslatable("return in the middle of a block")
                out.append(self.tr(s.value))
                return " ".join(out)
            if isinstance(s, ast.Assign) and len(s.targets) == 1 and isinstance(s.targets[0], ast.Name):
                out.append("let %s := %s;" % (self.name(s.targets[0].id), self.tr(s.value)))
                continue
            if isinstance(s, ast.AugAssign) and isinstance(s.target, ast.Name) and type(s.op) in AUG:
                v = self.name(s.target.id)
                out.append("let %s := (%s %s %s);" % (v, v, AUG[type(s.op)], self.tr(s.value)))
                continue
            if isinstance(s, ast.If):
                a = self.assigned(s.body)
                if s.orelse:
                    b = self.assigned(s.orelse)
                    common = sorted({n for n in a if n in b})
                else:
                    common = sorted(set(a))
                if len(common) != 1:
                    raise Untranslatable("if-statement must assign exactly one common variable, got %r" % common)
                v = common[0]
                then = self.block(s.body, tail=v)
                els = self.block(s.orelse, tail=v) if s.orelse else self.name(v)
                out.append("let %s := (if %s then (%s) else (%s));" % (self.name(v), self.cond(s.test), then, els))
                continue
            raise Untranslatable("statement " + type(s).__name__)
        if tail is None:
            raise Untranslatable("no return")
        out.append(self.name(tail))
        return " ".join(out)


def pretty(term, indent="  "):
    """one `let` per line at the outermost level (purely cosmetic; nested lets stay inline)."""
    out, depth, cur = [], 0, ""
    for ch in term:
        cur += ch
        if ch == "(":
            depth += 1
        elif ch == ")":
            depth -= 1
        elif ch == ";" and depth == 0:
            out.append(cur.strip())
            cur = ""
    if cur.strip():
        out.append(cur.strip())
    return ("\n" + indent).join(out)


def module_func(tree, name):
    for n in tree.body:
        if isinstance(n, ast.FunctionDef) and n.name == name:
            return n
    raise Untranslatable("function %s not found" % name)


def argnames(f, skip_self=False):
    names = [a.arg for a in f.args.args]
    return names[1:] if skip_self else names


def gen_scalar_fn(tree, pyname, leanname, doc):
    f = module_func(tree, pyname)
    ex = Expr2()
    term = ex.block(f.body)
    if ex.selfattrs:
        raise Untranslatable("%s mentions self" % pyname)
    sig = " ".join(argnames(f))
    return "/-- `%s` -/\ndef %s (%s : α) : α :=\n  %s\n" % (doc, leanname, sig, pretty(term))


NP_SHAPES = {"np.bartlett": "bartlett", "np.blackman": "blackman", "np.hamming": "hamming", "np.hanning": "hanning"}
WINDOWS = [("BartlettWindow", "bartlett"), ("BlackmanWindow", "blackman"), ("HammingWindow", "hamming"), ("HannWindow", "hann")]


def gen_np_window(tree, cls, short):
    """`window = np.<shape>(width); window /= <expr>; return window`  (exactly this shape)."""
    c = pyexpr.find_class(tree, cls)
    f = pyexpr.find_func(c, "get_impulse_response")
    body = Expr2.strip_doc(f.body)
    arg = argnames(f, skip_self=True)
    if len(arg) != 1:
        raise Untranslatable(cls + ".get_impulse_response signature")
    w = arg[0]
    ok = (
        len(body) == 3
        and isinstance(body[0], ast.Assign)
        and len(body[0].targets) == 1
        and isinstance(body[0].targets[0], ast.Name)
        and isinstance(body[0].value, ast.Call)
        and len(body[0].value.args) == 1
        and not body[0].value.keywords
        and isinstance(body[0].value.args[0], ast.Name)
        and body[0].value.args[0].id == w
        and isinstance(body[1], ast.AugAssign)
        and isinstance(body[1].op, ast.Div)
        and isinstance(body[1].target, ast.Name)
        and body[1].target.id == body[0].targets[0].id
        and isinstance(body[2], ast.Return)
        and isinstance(body[2].value, ast.Name)
        and body[2].value.id == body[0].targets[0].id
    )
    if not ok:
        raise Untranslatable(cls + ".get_impulse_response is not `w = np.X(width); w /= E; return w`")
    fn = pyexpr.dotted(body[0].value.func)
    if fn not in NP_SHAPES:
        raise Untranslatable("%s calls %s" % (cls, fn))
    ex = Expr2(rename={w: "width"})
    norm = ex.tr(body[1].value)
    if ex.selfattrs:
        raise Untranslatable(cls + " normaliser mentions self")
    return (
        "/-- `%s.get_impulse_response` calls `%s(width)` ... -/\n"
        "def %s_shape : NpShape := .%s\n"
        "/-- ... and divides every sample by this (`width` is the integer width as a number). -/\n"
        "def %s_norm (width : α) : α :=\n  %s\n" % (cls, fn, short, NP_SHAPES[fn], short, norm)
    )


def nat_term(e, rename):
    """integer-valued index expressions (`width - 1`, `width`) as Lean `Nat` terms."""
    if isinstance(e, ast.Name):
        return rename.get(e.id, e.id)
    if isinstance(e, ast.Constant) and isinstance(e.value, int) and not isinstance(e.value, bool) and e.value >= 0:
        return str(e.value)
    if isinstance(e, ast.BinOp) and isinstance(e.op, (ast.Add, ast.Sub)):
        return "(%s %s %s)" % (nat_term(e.left, rename), "+" if isinstance(e.op, ast.Add) else "-", nat_term(e.right, rename))
    raise Untranslatable("index expression " + ast.unparse(e))


def gen_gamma(tree):
    c = pyexpr.find_class(tree, "GammaWindow")
    f = pyexpr.find_func(c, "get_impulse_response")
    body = Expr2.strip_doc(f.body)
    w = argnames(f, skip_self=True)[0]
    # expected statement sequence (anything else: Untranslatable)
    #   if width <= 0: return <empty> / elif width == 1: return <[1]>
    #   peak = self.peak * width ; ret = np.arange(width - 1, -1, -1, dtype=float)
    #   if self.order > 1: alpha = ..; offs = ..  else: alpha = ..; offs = ..
    #   ln_c = ..; ln_c -= ..; ret[:offs] = <kernel>; return ret
    if len(body) != 8:
        raise Untranslatable("GammaWindow.get_impulse_response: %d statements, expected 8" % len(body))
    guard, peak_s, ret_s, br, lnc1, lnc2, kern, retn = body
    # --- guards
    g_ok = (
        isinstance(guard, ast.If)
        and ast.unparse(guard.test) == "%s <= 0" % w
        and len(guard.body) == 1
        and isinstance(guard.body[0], ast.Return)
        and ast.unparse(guard.body[0].value) == "np.array([], dtype=float)"
        and len(guard.orelse) == 1
        and isinstance(guard.orelse[0], ast.If)
        and ast.unparse(guard.orelse[0].test) == "%s == 1" % w
        and len(guard.orelse[0].body) == 1
        and isinstance(guard.orelse[0].body[0], ast.Return)
        and ast.unparse(guard.orelse[0].body[0].value) == "np.array([1], dtype=float)"
        and not guard.orelse[0].orelse
    )
    if not g_ok:
        raise Untranslatable("GammaWindow width guards changed")
    if ast.unparse(ret_s) != "ret = np.arange(%s - 1, -1, -1, dtype=float)" % w:
        raise Untranslatable("GammaWindow time axis changed: " + ast.unparse(ret_s))
    if not (isinstance(retn, ast.Return) and ast.unparse(retn.value) == "ret"):
        raise Untranslatable("GammaWindow return changed")
    # --- alpha / offs
    if not (isinstance(br, ast.If) and br.orelse):
        raise Untranslatable("GammaWindow order branch")

    def pick(stmts, name):
        vals = [s.value for s in stmts if isinstance(s, ast.Assign) and len(s.targets) == 1
                and isinstance(s.targets[0], ast.Name) and s.targets[0].id == name]
        if len(vals) != 1 or len(stmts) != 2:
            raise Untranslatable("GammaWindow order branch must assign alpha and offs once each")
        return vals[0]

    ex = Expr2(rename={w: "width"})
    peak_let = ex.block([peak_s], tail="peak")  # `let peak := (peak * width); peak`
    if not peak_let.endswith("; peak"):
        raise Untranslatable("GammaWindow peak statement")
    peak_let = peak_let[: -len(" peak")]
    exb = Expr2(rename={w: "width"})
    test = exb.cond(br.test)
    if sorted(exb.selfattrs) != ["order"]:
        raise Untranslatable("GammaWindow branch test depends on %r" % sorted(exb.selfattrs))
    alpha = "(if gamma_hi order then %s else %s)" % (ex.tr(pick(br.body, "alpha")), ex.tr(pick(br.orelse, "alpha")))
    alpha_params = sorted(ex.selfattrs)
    if alpha_params != ["order", "peak"]:
        raise Untranslatable("GammaWindow alpha depends on %r" % alpha_params)
    offs = "if gamma_hi order then %s else %s" % (
        nat_term(pick(br.body, "offs"), {w: "width"}), nat_term(pick(br.orelse, "offs"), {w: "width"}))
    # --- ln_c
    ex2 = Expr2(rename={w: "width"}, opaque_calls={"math.factorial(self.order - 1)": "fact_order_m1"})
    lnc = ex2.block([lnc1, lnc2], tail="ln_c")
    if sorted(ex2.selfattrs) != ["order"] or ex2.used_opaque != ["fact_order_m1"]:
        raise Untranslatable("GammaWindow ln_c shape")
    # --- kernel
    if not (isinstance(kern, ast.Assign) and ast.unparse(kern.targets[0]) == "ret[:offs]"):
        raise Untranslatable("GammaWindow kernel target")
    ex3 = Expr2(rename={w: "width"}, subscripts={"ret[:offs]": "t"})
    kernel = ex3.tr(kern.value)
    if sorted(ex3.selfattrs) != ["order"]:
        raise Untranslatable("GammaWindow kernel shape")
    return (
        "/-- `GammaWindow.get_impulse_response`: the test of the `if` that selects `alpha` and `offs`. -/\n"
        "def gamma_hi (order : α) : Bool :=\n  decide (%s)\n\n"
        "/-- `alpha` (after `peak = self.peak * width`). -/\n"
        "def gamma_alpha (order peak width : α) : α :=\n  %s\n  %s\n\n"
        "/-- samples `ret[:offs]` are overwritten by the kernel, the rest keep `arange`'s value. -/\n"
        "def gamma_offs (order : α) (width : Nat) : Nat :=\n  %s\n\n"
        "/-- `ln_c`; `fact_order_m1` stands for `math.factorial(self.order - 1)`. -/\n"
        "def gamma_ln_c (order alpha fact_order_m1 : α) : α :=\n  %s\n\n"
        "/-- right-hand side of `ret[:offs] = ...` for one sample whose `arange` value is `t`. -/\n"
        "def gamma_kernel (order alpha ln_c t : α) : α :=\n  %s\n"
        % (test, peak_let, alpha, offs, pretty(lnc), kernel)
    )


def generate(repo):
    util = ast.parse(open(repo + "/" + UTIL).read())
    filt = ast.parse(open(repo + "/" + FILTERS).read())
    out = [pyexpr.HEADER.format(src=UTIL + " and " + FILTERS, ns="UtilFns")]
    out.append(gen_scalar_fn(util, "hertz_to_angular", "hertz_to_angular", "util.hertz_to_angular"))
    out.append(gen_scalar_fn(util, "angular_to_hertz", "angular_to_hertz", "util.angular_to_hertz"))
    out.append(gen_scalar_fn(util, "_gauss_quant_odeh_evans", "gauss_quant_odeh_evans",
                             "util._gauss_quant_odeh_evans (= util.gauss_quant when scipy is absent)"))
    out.append("/-- the NumPy window shapes the window classes call -/\n"
               "inductive NpShape where\n  | bartlett | blackman | hamming | hanning\n  deriving DecidableEq, Repr\n")
    for cls, short in WINDOWS:
        out.append(gen_np_window(filt, cls, short))
    out.append(gen_gamma(filt))
    out.append("end PdsVerif.Gen.UtilFns\n")
    return {"UtilFns.lean": "\n".join(out)}


if __name__ == "__main__":
    import sys

    print(generate(sys.argv[1] if len(sys.argv) > 1 else "/repo")["UtilFns.lean"])

"""``read_signal`` / ``wds_read_signal`` glue -> lean/PdsVerif/Generated/ReadSig.lean (property C11).

Read from ``src/pydrobert/speech/util.py`` by ``ast`` (never executed):

* ``_infer_force_as_from_rfilename``: the ordered ``if/elif`` chain -> ``List Rule`` and the exception of its
  ``else``; the regular expression literal;
* ``read_signal``: the stream guard (exceptions, the set of ``force_as`` values refused for a stream), the
  ordered dispatch chain -> ``List Arm`` (``==`` / ``== or in SOUNDFILE_SUPPORTED_FILE_TYPES`` tests, plain
  call / ``try … except ImportError`` / ``assert isinstance(rfilename, str)`` bodies), the exception of its
  ``else`` and the ``avail_force_as`` literal of the message;
* every helper the chain calls: which third-party decoder it hands the file to (classified by the *call* it
  makes, not by its name), what it does with ``key`` and ``dtype`` (default key ``'arr_0'``, Kaldi defaults,
  ``if dtype: data = data.astype(dtype)`` as the last statement or dtype handed to the decoder), the order of
  the array operations, the HDF5 depth-first loop (compared, up to renaming of locals, with the loop the model
  ``h5Loop`` mirrors), the soundfile subtype -> dtype chain;
* ``wds_read_signal``: the shape of its ``try`` and what the handler catches.

Read from ``config.py``: ``_BASE_SOUNDFILE_SUPPORTED_TYPES`` (ast) and, in a fresh interpreter importing the
package from ``<repo>/src``, the *values* of ``SOUNDFILE_SUPPORTED_FILE_TYPES`` /
``_FULL_SOUNDFILE_SUPPORTED_TYPES`` and which optional packages can be imported here.

Syntax outside this subset is refused (``Untranslatable``), never guessed.
"""
import ast
import json
import os
import subprocess
import sys

PY = sys.executable or "/venv/bin/python"


class Untranslatable(Exception):
    pass


def bad(msg, node=None):
    where = " (util.py:%d)" % node.lineno if node is not None and hasattr(node, "lineno") else ""
    raise Untranslatable(msg + where)


ERRS = {
    "IOError": ".ioError", "OSError": ".ioError", "ValueError": ".valueError", "AssertionError": ".assertionError",
    "ImportError": ".importError", "ModuleNotFoundError": ".importError", "KeyError": ".keyError",
    "IndexError": ".indexError", "TypeError": ".typeError",
}
ALL_ERRS = [".ioError", ".valueError", ".assertionError", ".importError", ".keyError", ".indexError", ".typeError",
            ".decoder", ".outOfFuel"]


def lstr(s):
    """a Lean `Str` literal"""
    return "(str%% %s)" % json.dumps(s, ensure_ascii=True)


def lstrs(xs):
    return "[" + ", ".join(lstr(x) for x in xs) + "]"


def dotted(node):
    if isinstance(node, ast.Name):
        return node.id
    if isinstance(node, ast.Attribute):
        b = dotted(node.value)
        return None if b is None else b + "." + node.attr
    return None


def is_name(node, name):
    return isinstance(node, ast.Name) and node.id == name


def const_str(node):
    return node.value if isinstance(node, ast.Constant) and isinstance(node.value, str) else None


def raised_class(stmts):
    """class name raised by the first `raise` of a block (None when there is none)"""
    for s in stmts:
        for n in ast.walk(s):
            if isinstance(n, ast.Raise) and n.exc is not None:
                e = n.exc.func if isinstance(n.exc, ast.Call) else n.exc
                return dotted(e)
    return None


def err_of(stmts, what, node=None):
    c = raised_class(stmts)
    if c not in ERRS:
        bad("%s raises %r, which the model does not know" % (what, c), node)
    return ERRS[c]


def canon_dump(nodes):
    """ast.dump with local names replaced by v0, v1, … in order of first appearance (so that renaming a local
    variable is not a change)"""
    names = {}

    class R(ast.NodeTransformer):
        def visit_Name(self, n):
            if n.id not in names:
                names[n.id] = "v%d" % len(names)
            return ast.copy_location(ast.Name(id=names[n.id], ctx=n.ctx), n)

    import copy

    out = []
    for n in nodes:
        out.append(ast.dump(R().visit(copy.deepcopy(n))))
    return "\n".join(out)


# ------------------------------------------------------------------------------------------------
# _infer_force_as_from_rfilename
# ------------------------------------------------------------------------------------------------

REGEX = r"^(ark|scp)(,\w+)*:"


def is_sf_set(node):
    return dotted(node) in ("config.SOUNDFILE_SUPPORTED_FILE_TYPES", "SOUNDFILE_SUPPORTED_FILE_TYPES")


def is_last_seg(node, arg):
    """`arg.rsplit(".", maxsplit=1)[-1]`"""
    if not isinstance(node, ast.Subscript):
        return False
    sl = node.slice
    if not (isinstance(sl, ast.UnaryOp) and isinstance(sl.op, ast.USub) and isinstance(sl.operand, ast.Constant)
            and sl.operand.value == 1):
        return False
    c = node.value
    if not (isinstance(c, ast.Call) and isinstance(c.func, ast.Attribute) and c.func.attr == "rsplit"
            and is_name(c.func.value, arg)):
        return False
    if not (len(c.args) == 1 and const_str(c.args[0]) == "."):
        if not (len(c.args) == 2 and const_str(c.args[0]) == "." and isinstance(c.args[1], ast.Constant)
                and c.args[1].value == 1):
            return False
        return not c.keywords
    return (len(c.keywords) == 1 and c.keywords[0].arg == "maxsplit" and isinstance(c.keywords[0].value, ast.Constant)
            and c.keywords[0].value.value == 1)


def infer_rules(fn):
    if len(fn.args.args) != 1:
        bad("_infer_force_as_from_rfilename: expected one parameter", fn)
    arg = fn.args.args[0].arg
    body = [s for s in fn.body if not (isinstance(s, ast.Expr) and isinstance(s.value, ast.Constant))]
    if not (len(body) == 2 and isinstance(body[0], ast.If) and isinstance(body[1], ast.Return)):
        bad("_infer_force_as_from_rfilename: expected `if … elif … else: raise` followed by `return force_as`", fn)
    target = body[1].value.id if isinstance(body[1].value, ast.Name) else None
    rules, regex, node = [], None, body[0]
    while True:
        t = node.test
        if not (len(node.body) == 1 and isinstance(node.body[0], ast.Assign) and len(node.body[0].targets) == 1
                and is_name(node.body[0].targets[0], target)):
            bad("inference chain: branch body is not a single `force_as = …`", node)
        val = node.body[0].value
        if (isinstance(t, ast.Call) and dotted(t.func) in ("match", "re.match") and len(t.args) == 2
                and const_str(t.args[0]) is not None and is_name(t.args[1], arg) and not t.keywords):
            regex = const_str(t.args[0])
            if regex != REGEX:
                bad("inference chain: regular expression %r is not the one the model implements (%r)" % (regex, REGEX), t)
            if const_str(val) is None:
                bad("inference chain: regex branch does not assign a literal", node)
            rules.append(".tableRegex %s" % lstr(const_str(val)))
        elif (isinstance(t, ast.Compare) and len(t.ops) == 1 and isinstance(t.ops[0], ast.In)
              and is_last_seg(t.left, arg) and is_sf_set(t.comparators[0])):
            if not is_last_seg(val, arg):
                bad("inference chain: soundfile branch does not assign the last segment", node)
            rules.append(".lastSegInSf")
        elif (isinstance(t, ast.Call) and isinstance(t.func, ast.Attribute) and t.func.attr == "endswith"
              and is_name(t.func.value, arg) and len(t.args) == 1 and const_str(t.args[0]) is not None
              and not t.keywords):
            if const_str(val) is None:
                bad("inference chain: endswith branch does not assign a literal", node)
            rules.append(".endsWith %s %s" % (lstr(const_str(t.args[0])), lstr(const_str(val))))
        else:
            bad("inference chain: test outside the translated subset: %s" % ast.unparse(t), t)
        if len(node.orelse) == 1 and isinstance(node.orelse[0], ast.If):
            node = node.orelse[0]
            continue
        if not node.orelse:
            bad("inference chain: no final else", node)
        els = err_of(node.orelse, "inference chain: final else", node)
        break
    if regex is None:
        bad("inference chain: no regular expression branch", fn)
    return rules, els


# ------------------------------------------------------------------------------------------------
# helpers
# ------------------------------------------------------------------------------------------------

H5_LOOP_SRC = '''
group_stack = [h5py_file]
data = None
while group_stack:
    cur_group = group_stack.pop()
    if isinstance(cur_group, h5py.Dataset):
        data = cur_group
        break
    else:
        keys = list(cur_group.keys())
        keys.sort(reverse=True)
        for name in keys:
            group_stack.append(cur_group[name])
if data is None:
    raise IOError("Could not find any dataset")
'''

TABLE_SRC = '''
if key is None:
    key = 0
if dtype is None:
    dtype = "bm"
if isinstance(key, str):
    with io_open(rfilename, dtype, mode="r+", **kwargs) as table:
        return table[key]
else:
    with io_open(rfilename, dtype, mode="r", **kwargs) as table:
        for idx in range(key):
            if not table.move():
                raise IndexError("table index out of range")
        return table.value()
'''

KALDI_INPUT_SRC = '''
if dtype is None:
    dtype = "bm"
with io_open(rfilename, mode="r", **kwargs) as inp_stream:
    data = inp_stream.read(dtype)
return data
'''


def strip_msg(nodes):
    """replace the message strings of `raise X("…")` by "" (wording is not behaviour)"""
    import copy

    nodes = [copy.deepcopy(n) for n in nodes]
    for n in nodes:
        for r in ast.walk(n):
            if isinstance(r, ast.Raise) and isinstance(r.exc, ast.Call):
                r.exc.args = []
    return nodes


def same_code(nodes, src):
    return canon_dump(strip_msg(nodes)) == canon_dump(strip_msg(ast.parse(src).body))


def drop_imports(body):
    return [s for s in body if not isinstance(s, (ast.Import, ast.ImportFrom))
            and not (isinstance(s, ast.Expr) and isinstance(s.value, ast.Constant))]


def ordered_calls(fn):
    ev = []
    for n in ast.walk(fn):
        if isinstance(n, (ast.Call, ast.Subscript, ast.While)):
            ev.append(n)
    ev.sort(key=lambda n: (n.lineno, n.col_offset))
    return ev


def analyse_helper(fn):
    """-> dict(reader, fn, dtype, key, ops, extra)"""
    a = fn.args
    if [x.arg for x in a.args] != ["rfilename", "dtype", "key"] or a.vararg or a.kwarg is None:
        bad("helper %s: expected parameters (rfilename, dtype, key, **kwargs)" % fn.name, fn)
    body = drop_imports(fn.body)
    calls = [dotted(n.func) for n in ast.walk(fn) if isinstance(n, ast.Call)]
    kinds = []
    for name, rd in (("wavfile.read", "wavScipy"), ("wave.open", "wavWave"), ("h5py.File", "hdf5"),
                     ("np.load", "np.load"), ("torch.load", "torch"), ("io_open", "kaldi"),
                     ("np.fromfile", "fromfile"), ("soundfile.SoundFile", "soundfile")):
        if name in calls:
            kinds.append(rd)
    if len(kinds) != 1:
        bad("helper %s: cannot tell which decoder it calls (%s)" % (fn.name, kinds), fn)
    kind = kinds[0]
    extra = {}
    # ---- Kaldi helpers: whole body compared with the code the model mirrors
    if kind == "kaldi":
        if same_code(body, TABLE_SRC):
            return dict(reader="kaldiTable", fn=fn.name, dtype='.toDecoder (some %s) true' % lstr("bm"),
                        key=".table (.int 0)", ops=[".select"], extra=extra)
        if same_code(body, KALDI_INPUT_SRC):
            return dict(reader="kaldiInput", fn=fn.name, dtype='.toDecoder (some %s) true' % lstr("bm"),
                        key=".ignored", ops=[], extra=extra)
        bad("helper %s: Kaldi helper differs from the code the model mirrors" % fn.name, fn)
    # ---- generic shape: …; [if dtype: data = data.astype(dtype)]; return data
    if not (body and isinstance(body[-1], ast.Return) and isinstance(body[-1].value, ast.Name)):
        bad("helper %s: does not end with `return <name>`" % fn.name, fn)
    res = body[-1].value.id
    astypes = [n for n in ast.walk(fn) if isinstance(n, ast.Call) and isinstance(n.func, ast.Attribute)
               and n.func.attr == "astype"]
    dtype_mode = None
    if len(body) >= 2 and isinstance(body[-2], ast.If) and not body[-2].orelse and len(body[-2].body) == 1:
        i = body[-2]
        st = i.body[0]
        if (isinstance(st, ast.Assign) and len(st.targets) == 1 and is_name(st.targets[0], res)
                and isinstance(st.value, ast.Call) and isinstance(st.value.func, ast.Attribute)
                and st.value.func.attr == "astype" and is_name(st.value.func.value, res)
                and len(st.value.args) == 1 and is_name(st.value.args[0], "dtype") and not st.value.keywords):
            if is_name(i.test, "dtype"):
                dtype_mode = ".finalCast false"
            elif (isinstance(i.test, ast.Compare) and is_name(i.test.left, "dtype") and len(i.test.ops) == 1
                  and isinstance(i.test.ops[0], ast.IsNot) and isinstance(i.test.comparators[0], ast.Constant)
                  and i.test.comparators[0].value is None):
                dtype_mode = ".finalCast true"
            if dtype_mode and len(astypes) != 1:
                bad("helper %s: more than one astype" % fn.name, fn)
    if dtype_mode is None:
        if astypes:
            bad("helper %s: `astype` is not `if dtype: %s = %s.astype(dtype)` right before `return %s`"
                % (fn.name, res, res, res), astypes[0])
        # dtype handed to some call (keyword or positional), possibly under `if dtype:`
        uses = []
        for n in ast.walk(fn):
            if isinstance(n, ast.Call):
                for x in list(n.args) + [k.value for k in n.keywords]:
                    if is_name(x, "dtype"):
                        uses.append(n)
        if not uses:
            bad("helper %s: dtype is never used" % fn.name, fn)
        guarded = all(any(isinstance(p, ast.If) and is_name(p.test, "dtype") and any(u in ast.walk(b) for b in p.body)
                          for p in ast.walk(fn)) for u in uses)
        dtype_mode = ".toDecoder none %s" % ("false" if guarded else "true")
    # ---- key
    key_loads = [n for n in ast.walk(fn) if is_name(n, "key") and isinstance(n.ctx, ast.Load)]
    key_mode = ".ignored"
    if key_loads:
        key_if = [n for n in ast.walk(fn) if isinstance(n, ast.If) and is_name(n.test, "key")]
        if len(key_if) != 1 or len(key_loads) != 2:
            bad("helper %s: use of key outside `if key: … [key] … else: …`" % fn.name, fn)
        ki = key_if[0]
        st = ki.body
        if not (len(st) == 1 and isinstance(st[0], ast.Assign) and isinstance(st[0].value, ast.Subscript)
                and is_name(st[0].value.slice, "key")):
            bad("helper %s: `if key:` body is not `data = container[key]`" % fn.name, ki)
        container = dotted(st[0].value.value)
        if (len(ki.orelse) == 1 and isinstance(ki.orelse[0], ast.Assign)
                and isinstance(ki.orelse[0].value, ast.Subscript)
                and dotted(ki.orelse[0].value.value) == container
                and const_str(ki.orelse[0].value.slice) is not None):
            key_mode = ".orDefault (.str %s)" % lstr(const_str(ki.orelse[0].value.slice))
            extra["default_key"] = const_str(ki.orelse[0].value.slice)
        elif same_code(ki.orelse, H5_LOOP_SRC):
            key_mode = ".orFirstDataset"
        else:
            bad("helper %s: else-branch of `if key:` is neither `container[<literal>]` nor the depth-first loop "
                "the model mirrors" % fn.name, ki)
    # ---- reader
    if kind == "np.load":
        kind = "npz" if key_mode != ".ignored" else "npy"
    if kind == "hdf5" and key_mode != ".orFirstDataset":
        bad("helper %s: HDF5 helper without the depth-first search" % fn.name, fn)
    # ---- ops in source order
    ops = []
    for n in ordered_calls(fn):
        op = None
        if isinstance(n, ast.While):
            op = ".select"
        elif isinstance(n, ast.Subscript) and (is_name(n.slice, "key") or (key_mode.startswith(".orDefault")
                                                                       and const_str(n.slice) is not None)):
            op = ".select"
        elif isinstance(n, ast.Call) and isinstance(n.func, ast.Attribute):
            if n.func.attr == "reshape":
                op = ".reshape"
            elif n.func.attr == "astype":
                op = ".cast"
            elif n.func.attr == "numpy" or dotted(n.func) == "np.array":
                op = ".toNumpy"
        if op and (not ops or ops[-1] != op):
            ops.append(op)
    if kind == "soundfile":
        extra["subtypes"] = soundfile_subtypes(fn)
    return dict(reader=kind, fn=fn.name, dtype=dtype_mode, key=key_mode, ops=ops, extra=extra)


NP_TYPES = {"np.float32": "float32", "np.float64": "float64", "np.int8": "int8", "np.uint8": "uint8",
            "np.int16": "int16", "np.int32": "int32", "np.int64": "int64"}


def soundfile_subtypes(fn):
    """the `if sf.subtype == … : dtype_ = …` chain -> [(test, dtype)], test in
    ('eq', s) | ('never', repr) | ('in', [s…]) | ('else',)"""
    chain = None
    for n in ast.walk(fn):
        if (isinstance(n, ast.If) and isinstance(n.test, ast.Compare) and dotted(n.test.left) is not None
                and dotted(n.test.left).endswith(".subtype")):
            chain = n
            break
    if chain is None:
        bad("soundfile helper: no subtype chain", fn)
    out, node = [], chain
    while True:
        t = node.test
        if not (len(node.body) == 1 and isinstance(node.body[0], ast.Assign) and dotted(node.body[0].value) in NP_TYPES):
            bad("soundfile helper: subtype branch is not `dtype_ = np.<type>`", node)
        dt = NP_TYPES[dotted(node.body[0].value)]
        c = t.comparators[0]
        if isinstance(t.ops[0], ast.Eq) and const_str(c) is not None:
            out.append((("eq", const_str(c)), dt))
        elif isinstance(t.ops[0], ast.Eq):
            out.append((("never", ast.unparse(c)), dt))  # a str never equals a set / list / tuple
        elif isinstance(t.ops[0], ast.In) and isinstance(c, (ast.Set, ast.List, ast.Tuple)) and all(
                const_str(e) is not None for e in c.elts):
            out.append((("in", sorted(const_str(e) for e in c.elts)), dt))
        else:
            bad("soundfile helper: subtype test outside the subset", t)
        if len(node.orelse) == 1 and isinstance(node.orelse[0], ast.If):
            node = node.orelse[0]
            continue
        if not (len(node.orelse) == 1 and isinstance(node.orelse[0], ast.Assign)
                and dotted(node.orelse[0].value) in NP_TYPES):
            bad("soundfile helper: subtype chain has no plain else", node)
        out.append((("else",), NP_TYPES[dotted(node.orelse[0].value)]))
        return out


# ------------------------------------------------------------------------------------------------
# read_signal / wds_read_signal
# ------------------------------------------------------------------------------------------------


def helper_call(stmt, helpers):
    """`data = helper(rfilename, dtype, key, **kwargs)` -> helper name"""
    if not (isinstance(stmt, ast.Assign) and len(stmt.targets) == 1 and is_name(stmt.targets[0], "data")
            and isinstance(stmt.value, ast.Call) and isinstance(stmt.value.func, ast.Name)):
        return None
    c = stmt.value
    if not (len(c.args) == 3 and is_name(c.args[0], "rfilename") and is_name(c.args[1], "dtype")
            and is_name(c.args[2], "key") and len(c.keywords) == 1 and c.keywords[0].arg is None):
        bad("read_signal: helper is not called as helper(rfilename, dtype, key, **kwargs)", stmt)
    return c.func.id


def read_signal_chain(fn, helpers):
    a = fn.args
    if [x.arg for x in a.args] != ["rfilename", "dtype", "key", "force_as"]:
        bad("read_signal: parameters changed", fn)
    if [ast.unparse(d) for d in a.defaults] != ["None", "None", "None"]:
        bad("read_signal: defaults of dtype/key/force_as are not None", fn)
    body = [s for s in fn.body if not (isinstance(s, ast.Expr) and isinstance(s.value, ast.Constant))]
    if not (len(body) == 3 and isinstance(body[0], ast.If) and isinstance(body[1], ast.If)
            and isinstance(body[2], ast.Return) and is_name(body[2].value, "data")):
        bad("read_signal: expected guard, dispatch chain, `return data`", fn)
    g = body[0]
    out = {}
    if ast.unparse(g.test) != "not isinstance(rfilename, str)":
        bad("read_signal: first test is not `not isinstance(rfilename, str)`", g)
    if not (len(g.body) == 2 and all(isinstance(s, ast.If) and not s.orelse for s in g.body)):
        bad("read_signal: stream guard is not two `if … raise`", g)
    if ast.unparse(g.body[0].test) != "force_as is None":
        bad("read_signal: stream guard 1 is not `force_as is None`", g.body[0])
    out["streamNoForceAs"] = err_of(g.body[0].body, "stream without force_as", g.body[0])
    t = g.body[1].test
    if not (isinstance(t, ast.Compare) and is_name(t.left, "force_as") and isinstance(t.ops[0], ast.In)
            and isinstance(t.comparators[0], (ast.Set, ast.Tuple, ast.List))
            and all(const_str(e) is not None for e in t.comparators[0].elts)):
        bad("read_signal: stream guard 2 is not `force_as in {literals}`", g.body[1])
    out["streamRejected"] = sorted(const_str(e) for e in t.comparators[0].elts)
    out["streamRejectedErr"] = err_of(g.body[1].body, "kaldi type on a stream", g.body[1])
    if not (len(g.orelse) == 1 and isinstance(g.orelse[0], ast.If) and not g.orelse[0].orelse
            and ast.unparse(g.orelse[0].test) == "force_as is None"
            and ast.unparse(g.orelse[0].body[0]) == "force_as = _infer_force_as_from_rfilename(rfilename)"
            and len(g.orelse[0].body) == 1):
        bad("read_signal: `elif force_as is None: force_as = _infer_force_as_from_rfilename(rfilename)` changed", g)
    arms, lits, node = [], [], body[1]
    while True:
        t = node.test
        if (isinstance(t, ast.Compare) and is_name(t.left, "force_as") and len(t.ops) == 1
                and isinstance(t.ops[0], ast.Eq) and const_str(t.comparators[0]) is not None):
            cond = ".eq %s" % lstr(const_str(t.comparators[0]))
            lits.append(const_str(t.comparators[0]))
        elif (isinstance(t, ast.BoolOp) and isinstance(t.op, ast.Or) and len(t.values) == 2
              and isinstance(t.values[0], ast.Compare) and is_name(t.values[0].left, "force_as")
              and isinstance(t.values[0].ops[0], ast.Eq) and const_str(t.values[0].comparators[0]) is not None
              and isinstance(t.values[1], ast.Compare) and is_name(t.values[1].left, "force_as")
              and isinstance(t.values[1].ops[0], ast.In) and is_sf_set(t.values[1].comparators[0])):
            cond = ".eqOrInSf %s" % lstr(const_str(t.values[0].comparators[0]))
            lits.append(const_str(t.values[0].comparators[0]))
        else:
            bad("read_signal: dispatch test outside the subset: %s" % ast.unparse(t), t)
        b = node.body
        if len(b) == 1 and helper_call(b[0], helpers):
            br = ("call", helper_call(b[0], helpers))
        elif (len(b) == 1 and isinstance(b[0], ast.Try) and len(b[0].body) == 1 and helper_call(b[0].body[0], helpers)
              and len(b[0].handlers) == 1 and dotted(b[0].handlers[0].type) == "ImportError"
              and len(b[0].handlers[0].body) == 1 and helper_call(b[0].handlers[0].body[0], helpers)
              and not b[0].orelse and not b[0].finalbody):
            br = ("tryImport", helper_call(b[0].body[0], helpers), helper_call(b[0].handlers[0].body[0], helpers))
        elif (len(b) == 2 and isinstance(b[0], ast.Assert) and ast.unparse(b[0].test) == "isinstance(rfilename, str)"
              and helper_call(b[1], helpers)):
            br = ("assertStr", helper_call(b[1], helpers))
        elif (len(b) == 2 and isinstance(b[0], ast.ImportFrom) and b[0].module == "_sphere" and b[0].level == 1
              and [x.name for x in b[0].names] == ["sphere_read_signal"] and helper_call(b[1], helpers) == "sphere_read_signal"):
            br = ("call", "sphere_read_signal")
        else:
            bad("read_signal: dispatch body outside the subset", node)
        arms.append((cond, br))
        if len(node.orelse) == 1 and isinstance(node.orelse[0], ast.If):
            node = node.orelse[0]
            continue
        if not node.orelse:
            bad("read_signal: dispatch chain has no else", node)
        out["unknownForceAs"] = err_of(node.orelse, "unknown force_as", node)
        avail = None
        for n in ast.walk(ast.Module(body=node.orelse, type_ignores=[])):
            if isinstance(n, ast.Set) and all(const_str(e) is not None for e in n.elts) and len(n.elts) > 3:
                avail = sorted(const_str(e) for e in n.elts)
        out["avail"] = avail or []
        break
    out["arms"], out["literals"] = arms, lits
    return out


def wds_catch(fn):
    body = [s for s in fn.body if not (isinstance(s, ast.Expr) and isinstance(s.value, ast.Constant))]
    if not (len(body) == 1 and isinstance(body[0], ast.Try) and not body[0].orelse and not body[0].finalbody):
        bad("wds_read_signal: body is not a single try/except", fn)
    t = body[0]
    want = ["force_as = _infer_force_as_from_rfilename(key)", "return read_signal(io.BytesIO(data), force_as=force_as)"]
    if [ast.unparse(s) for s in t.body] != want:
        bad("wds_read_signal: try-body changed: %s" % [ast.unparse(s) for s in t.body], t)
    caught, escaping, bare = [], [], False
    for h in t.handlers:
        returns_none = len(h.body) == 1 and isinstance(h.body[0], ast.Return) and (
            h.body[0].value is None or (isinstance(h.body[0].value, ast.Constant) and h.body[0].value.value is None))
        reraises = len(h.body) == 1 and isinstance(h.body[0], ast.Raise) and h.body[0].exc is None
        if not (returns_none or reraises):
            bad("wds_read_signal: handler neither returns None nor re-raises", h)
        if h.type is None or dotted(h.type) in ("BaseException", "Exception"):
            names = None
        else:
            elts = h.type.elts if isinstance(h.type, ast.Tuple) else [h.type]
            names = []
            for e in elts:
                if dotted(e) not in ERRS:
                    bad("wds_read_signal: handler for %r" % dotted(e), h)
                names.append(ERRS[dotted(e)])
        if names is None:
            if reraises:
                bad("wds_read_signal: catch-all handler re-raises", h)
            bare = True
            break  # later handlers are unreachable
        for nm in names:
            if nm in caught or nm in escaping:
                continue
            (caught if returns_none else escaping).append(nm)
    if bare:
        if not escaping:
            return ".all"
        return ".only [%s]" % ", ".join(e for e in ALL_ERRS if e not in escaping)
    return ".only [%s]" % ", ".join(caught)


# ------------------------------------------------------------------------------------------------
# config.py (ast + runtime values)
# ------------------------------------------------------------------------------------------------

_SCRIPT = r"""
import sys, json, os, warnings, importlib.util
src = sys.argv[1]
sys.path.insert(0, src)
warnings.simplefilter("ignore")
import pydrobert.speech.config as c
here = os.path.realpath(c.__file__)
if not here.startswith(os.path.realpath(src)):
    print(json.dumps({"error": "config imported from %s" % here})); sys.exit(0)
def ok(m):
    try:
        return importlib.util.find_spec(m) is not None
    except Exception:
        return False
for name in ("SOUNDFILE_SUPPORTED_FILE_TYPES", "_BASE_SOUNDFILE_SUPPORTED_TYPES", "_FULL_SOUNDFILE_SUPPORTED_TYPES"):
    v = getattr(c, name)
    if not isinstance(v, (set, frozenset)) or not all(type(x) is str for x in v):
        print(json.dumps({"error": "%s is not a set of str" % name})); sys.exit(0)
print(json.dumps({"error": None, "sf": sorted(c.SOUNDFILE_SUPPORTED_FILE_TYPES),
                  "base": sorted(c._BASE_SOUNDFILE_SUPPORTED_TYPES), "full": sorted(c._FULL_SOUNDFILE_SUPPORTED_TYPES),
                  "mods": {m: ok(m) for m in ("scipy", "h5py", "torch", "soundfile", "pydrobert.kaldi")}}))
"""


def runtime(repo):
    src = os.path.join(repo, "src")
    env = dict(os.environ)
    env.pop("PYTHONPATH", None)
    env["PYTHONDONTWRITEBYTECODE"] = "1"
    p = subprocess.run([PY, "-c", _SCRIPT, src], stdout=subprocess.PIPE, stderr=subprocess.PIPE, text=True, env=env,
                       timeout=300)
    if p.returncode != 0:
        raise Untranslatable("config introspection failed: " + p.stderr[-800:])
    res = json.loads(p.stdout.strip().splitlines()[-1])
    if res.get("error"):
        raise Untranslatable(res["error"])
    return res


def config_base(repo):
    t = ast.parse(open(os.path.join(repo, "src", "pydrobert", "speech", "config.py")).read())
    base = None
    formula = None
    for n in ast.walk(t):
        if isinstance(n, ast.Assign) and len(n.targets) == 1 and isinstance(n.targets[0], ast.Name):
            if n.targets[0].id == "_BASE_SOUNDFILE_SUPPORTED_TYPES" and isinstance(n.value, ast.Set):
                base = sorted(const_str(e) for e in n.value.elts)
            if n.targets[0].id == "SOUNDFILE_SUPPORTED_FILE_TYPES" and not isinstance(n.value, ast.Call):
                formula = ast.unparse(n.value)
    if base is None or any(b is None for b in base):
        raise Untranslatable("config.py: _BASE_SOUNDFILE_SUPPORTED_TYPES is not a set literal of str")
    return base, formula


MISSING_BY_MODULE = {"scipy": ["wavScipy"], "h5py": ["hdf5"], "torch": ["torch"], "soundfile": ["soundfile"],
                     "pydrobert.kaldi": ["kaldiTable", "kaldiInput"]}


def generate(repo):
    path = os.path.join(repo, "src", "pydrobert", "speech", "util.py")
    tree = ast.parse(open(path).read())
    fns = {n.name: n for n in tree.body if isinstance(n, ast.FunctionDef)}
    for need in ("_infer_force_as_from_rfilename", "read_signal", "wds_read_signal"):
        if need not in fns:
            raise Untranslatable("util.py: %s not found" % need)
    rules, infer_else = infer_rules(fns["_infer_force_as_from_rfilename"])
    rs = read_signal_chain(fns["read_signal"], fns)
    used = []
    for _, br in rs["arms"]:
        for h in br[1:]:
            if h not in used:
                used.append(h)
    infos = {}
    for h in used:
        if h == "sphere_read_signal":
            infos[h] = dict(reader="sphere", fn=h, dtype=".toDecoder none true", key=".ignored", ops=[], extra={})
        elif h in fns:
            infos[h] = analyse_helper(fns[h])
        else:
            raise Untranslatable("read_signal calls %s, which is not a function of util.py" % h)
    catch = wds_catch(fns["wds_read_signal"])
    base, formula = config_base(repo)
    rt = runtime(repo)
    if sorted(rt["base"]) != base:
        raise Untranslatable("config._BASE_SOUNDFILE_SUPPORTED_TYPES at run time differs from its literal")
    missing = [r for m, rdrs in MISSING_BY_MODULE.items() if not rt["mods"][m] for r in rdrs]
    for s in rt["sf"] + rt["full"] + base:
        if not s or any(ord(ch) < 33 or ord(ch) > 126 for ch in s):
            raise Untranslatable("soundfile type %r cannot be carried" % s)

    def info_name(h):
        return "info_" + infos[h]["reader"]

    o = []
    o.append("-- GENERATED by harness/translate/readsig.py from src/pydrobert/speech/util.py (ast) and\n"
             "-- src/pydrobert/speech/config.py (ast + values in a fresh interpreter). DO NOT EDIT.\n"
             "import PdsVerif.Model.ReadSignal\n"
             "namespace PdsVerif.Gen.ReadSig\n"
             "open PdsVerif.Model.ReadSignal\n")
    o.append("/-- the regular expression literal of `_infer_force_as_from_rfilename` -/\n"
             "def tableRegexSrc : Str := %s\n" % lstr(REGEX))
    o.append("/-- `config._BASE_SOUNDFILE_SUPPORTED_TYPES` (set literal) -/\n"
             "def sfBase : List Str := %s\n" % lstrs(base))
    o.append("/-- `config._FULL_SOUNDFILE_SUPPORTED_TYPES` here: lower-cased `soundfile.available_formats()` -/\n"
             "def sfFull : List Str := %s\n" % lstrs(rt["full"]))
    o.append("/-- the value of `config.SOUNDFILE_SUPPORTED_FILE_TYPES` here (`%s`) -/\n"
             "def sfTypes : List Str := %s\n" % (formula, lstrs(rt["sf"])))
    o.append("/-- readers whose optional package cannot be imported here: %s -/\n"
             "def missingHere : List Reader := [%s]\n"
             % (", ".join("%s=%s" % kv for kv in sorted(rt["mods"].items())), ", ".join("." + m for m in missing)))
    o.append("/-- this installation -/\n"
             "def env : Env := ⟨sfTypes, fun _ => false, missingHere⟩\n")
    for h in used:
        i = infos[h]
        o.append("/-- `%s` -/\ndef %s : ReaderInfo :=\n  ⟨.%s, %s, %s, %s, [%s]⟩\n"
                 % (h, info_name(h), i["reader"], json.dumps(i["fn"]), i["dtype"], i["key"], ", ".join(i["ops"])))
    names = [info_name(h) for h in used]
    if len(set(names)) != len(names):
        raise Untranslatable("two helpers use the same decoder: %s" % names)
    o.append("def infos : List ReaderInfo := [%s]\n" % ", ".join(names))
    arms = []
    for cond, br in rs["arms"]:
        if br[0] == "call":
            b = ".call %s" % info_name(br[1])
        elif br[0] == "tryImport":
            b = ".tryImport %s %s" % (info_name(br[1]), info_name(br[2]))
        else:
            b = ".assertStr %s" % info_name(br[1])
        arms.append("    ⟨%s, %s⟩" % (cond, b))
    o.append("def config : Config where\n"
             "  rules := [\n%s]\n"
             "  inferElse := %s\n"
             "  streamNoForceAs := %s\n"
             "  streamRejected := %s\n"
             "  streamRejectedErr := %s\n"
             "  arms := [\n%s]\n"
             "  unknownForceAs := %s\n"
             "  wdsCatch := %s\n"
             % (",\n".join("    " + r for r in rules), infer_else, rs["streamNoForceAs"], lstrs(rs["streamRejected"]),
                rs["streamRejectedErr"], ",\n".join(arms), rs["unknownForceAs"], catch))
    o.append("/-- the literals the dispatch chain compares `force_as` with, in order -/\n"
             "def forceAsLiterals : List Str := %s\n" % lstrs(rs["literals"]))
    o.append("/-- the `avail_force_as` literal of the error message (without the soundfile types) -/\n"
             "def availForceAs : List Str := %s\n" % lstrs(rs["avail"]))
    sub = None
    for h in used:
        if "subtypes" in infos[h]["extra"]:
            sub = infos[h]["extra"]["subtypes"]
    if sub is None:
        raise Untranslatable("no soundfile helper")
    rows = []
    for test, dt in sub:
        if test[0] == "eq":
            rows.append("  (.eq %s, %s)" % (lstr(test[1]), lstr(dt)))
        elif test[0] == "never":
            rows.append("  (.never, %s)  -- `sf.subtype == %s`: a str never equals that" % (lstr(dt), test[1]))
        elif test[0] == "in":
            rows.append("  (.mem %s, %s)" % (lstrs(test[1]), lstr(dt)))
        else:
            rows.append("  (.otherwise, %s)" % lstr(dt))
    # trailing comments must not swallow the separating commas: put the comma first
    body = ""
    for k, r in enumerate(rows):
        if " --" in r:
            code, com = r.split("  --", 1)
            body += code + ("," if k + 1 < len(rows) else "") + "  --" + com + "\n"
        else:
            body += r + ("," if k + 1 < len(rows) else "") + "\n"
    o.append("/-- `_soundfile_read_signal`: `sf.subtype` -> numpy type the file is read with, in source order -/\n"
             "def sfSubtypes : List (SubtypeTest × Str) := [\n%s]\n" % body)
    o.append("end PdsVerif.Gen.ReadSig\n")
    meta = dict(rules=rules, infos=infos, rt=rt, arms=rs["arms"], literals=rs["literals"], missing=missing,
                streamRejected=rs["streamRejected"], catch=catch, subtypes=sub)
    return {"ReadSig.lean": "\n".join(o)}, meta


if __name__ == "__main__":
    files, _ = generate(sys.argv[1] if len(sys.argv) > 1 else os.environ.get("PDS_REPO", "/repo"))
    print(files["ReadSig.lean"])

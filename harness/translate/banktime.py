"""filters.py + config.py -> lean/PdsVerif/Generated/BankTime.lean (property C07).

Regenerated from the source text on every run (nothing is guessed; syntax outside the subset raises
``Untranslatable`` and the check falls back as described in DESIGN 2.3):

* ``config.EFFECTIVE_SUPPORT_THRESHOLD``;
* the class table: ``is_real`` / ``is_analytic`` / ``is_zero_phase`` of the four banks and the dtype of
  the buffer ``get_impulse_response`` returns (structural; read from the property bodies);
* ``TriangularOverlappingFilterBank.supports`` / ``Fbank.supports``: the real-valued ``K`` before
  ``int(np.ceil(K))`` and the integer pair appended (``(-K // 2 - 1, K // 2 + 1)``);
* ``GaborFilterBank.__init__``: ``t_support_const`` (both ``scale_l2_norm`` branches), the expression under
  ``int(np.ceil(.))`` giving ``diff_samps`` and its radicand, the appended pair; and from
  ``GaborFilterBank.get_impulse_response`` the exponent of one term (real part = log-envelope,
  imaginary part = phase);
* ``ComplexGammatoneFilterBank``: ``offset`` (both ``max_centered`` branches), ``_h`` (guard, real part of
  the exponent = log-envelope, imaginary part = phase), and from ``_calculate_temp_support`` the
  derivative ``_d``, the Newton starting point, the loop test, the update ``right -= h_0 / d_0``, the
  order-1 formula and the returned integer pair;
* ``TriangularOverlappingFilterBank.get_impulse_response``: ``div_term`` / ``denom`` selection, the value
  added at sample ``t`` (real and analytic form: real and imaginary parts) and the ``t = 0`` term.

The Python subset is that of ``pyexpr`` plus (here, by subclassing): complex arithmetic with ``1j``
(an expression is translated to a pair real part / imaginary part; ``np.exp`` of a complex number is
``exp(re) * (cos im, sin im)``, ``np.abs(np.exp(z))`` is ``exp(re z)``), augmented assignments,
``if`` statements over blocks, boolean flags, ``//`` on integers, and a fixed table of ``self._xs[idx]``
subscripts read as parameters.
"""
import ast
import re

from . import pyexpr
from .pyexpr import Expr, Untranslatable, lit

FILTERS = "src/pydrobert/speech/filters.py"
CONFIG = "src/pydrobert/speech/config.py"

AUG = {ast.Add: "+", ast.Sub: "-", ast.Mult: "*", ast.Div: "/"}

SUBS = {
    "self._offsets[idx]": "offset",
    "self._alphas[idx]": "alpha",
    "self._cs[idx]": "c",
    "self._xis[idx]": "xi",
    "self._centers_ang[filt_idx]": "center_ang",
    "self._stds[filt_idx]": "std",
}

LEAN_WORDS = {
    "let", "if", "then", "else", "true", "false", "decide", "threshold", "fun",
}


def strip_doc(stmts):
    return [s for s in stmts if not (isinstance(s, ast.Expr) and isinstance(s.value, ast.Constant))]


class CX(Expr):
    """pyexpr.Expr + the extra syntax named in the module docstring."""

    def __init__(self, rename=None, subs=None, boolnames=(), calls=None):
        super().__init__(set(), rename)
        self.subs = dict(SUBS if subs is None else subs)
        self.boolnames = set(boolnames)
        self.cvars = {}  # python name -> (re name, im name)
        self.calls = calls or {}  # ast.unparse(call) prefix handlers

    # ---- real-valued expressions ---------------------------------------------------------
    def tr(self, e):
        if isinstance(e, ast.Attribute):
            d = pyexpr.dotted(e)
            if d == "config.EFFECTIVE_SUPPORT_THRESHOLD":
                return "threshold"
        if isinstance(e, ast.Subscript):
            key = ast.unparse(e)
            if key in self.subs:
                return self.subs[key]
            raise Untranslatable("subscript " + key)
        if isinstance(e, ast.Name) and e.id in self.cvars:
            raise Untranslatable("complex variable %s used as a real" % e.id)
        if isinstance(e, ast.Constant) and isinstance(e.value, complex):
            raise Untranslatable("complex literal used as a real")
        if isinstance(e, ast.Call):
            key = ast.unparse(e)
            for k, fn in self.calls.items():
                if key.startswith(k):
                    return fn(self, e)
            f = pyexpr.dotted(e.func) if isinstance(e.func, (ast.Name, ast.Attribute)) else None
            if f == "int" and len(e.args) == 1 and self.is_flag(e.args[0]):
                return "(if %s = true then 1.0 else 0.0)" % self.flag(e.args[0])
            if f == "np.ceil" and len(e.args) == 1 and not e.keywords:
                return "(Rnd.ceil %s)" % self.tr(e.args[0])
            if f == "np.floor" and len(e.args) == 1 and not e.keywords:
                return "(Rnd.floor %s)" % self.tr(e.args[0])
        return super().tr(e)

    # ---- flags -----------------------------------------------------------------------------
    def is_flag(self, e):
        if isinstance(e, ast.Name):
            return e.id in self.boolnames
        if isinstance(e, ast.Attribute):
            d = pyexpr.dotted(e)
            return d.startswith("self.") and d[5:].lstrip("_") in self.boolnames
        return False

    def flag(self, e):
        if isinstance(e, ast.Name):
            return self.name(e.id)
        return self.name(pyexpr.dotted(e)[5:].lstrip("_"))

    def cond(self, e):
        if self.is_flag(e):
            return "%s = true" % self.flag(e)
        if isinstance(e, ast.UnaryOp) and isinstance(e.op, ast.Not) and self.is_flag(e.operand):
            return "%s = false" % self.flag(e.operand)
        return super().cond(e)

    def btr(self, e):
        """Boolean-valued expressions over flags."""
        if isinstance(e, ast.Constant) and isinstance(e.value, bool):
            return "true" if e.value else "false"
        if self.is_flag(e):
            return self.flag(e)
        if isinstance(e, ast.UnaryOp) and isinstance(e.op, ast.Not):
            return "(!%s)" % self.btr(e.operand)
        raise Untranslatable("boolean expression " + ast.unparse(e))

    # ---- complex-valued expressions: (re | None, im | None), None = 0 ------------------------
    def ctr(self, e):
        if isinstance(e, ast.Constant) and isinstance(e.value, complex):
            v = e.value
            return (lit(v.real) if v.real != 0 else None, lit(v.imag) if v.imag != 0 else None)
        if isinstance(e, ast.Name) and e.id in self.cvars:
            return self.cvars[e.id]
        if isinstance(e, ast.UnaryOp) and isinstance(e.op, ast.USub):
            a, b = self.ctr(e.operand)
            return (None if a is None else "(-%s)" % a, None if b is None else "(-%s)" % b)
        if isinstance(e, ast.BinOp) and isinstance(e.op, (ast.Add, ast.Sub)):
            (a, b), (c, d) = self.ctr(e.left), self.ctr(e.right)
            op = "+" if isinstance(e.op, ast.Add) else "-"

            def comb(x, y):
                if y is None:
                    return x
                if x is None:
                    return y if op == "+" else "(-%s)" % y
                return "(%s %s %s)" % (x, op, y)

            return (comb(a, c), comb(b, d))
        if isinstance(e, ast.BinOp) and isinstance(e.op, ast.Mult):
            (a, b), (c, d) = self.ctr(e.left), self.ctr(e.right)

            def mul(x, y):
                return None if x is None or y is None else "(%s * %s)" % (x, y)

            def sub(x, y):
                if y is None:
                    return x
                if x is None:
                    return "(-%s)" % y
                return "(%s - %s)" % (x, y)

            def add(x, y):
                if y is None:
                    return x
                if x is None:
                    return y
                return "(%s + %s)" % (x, y)

            return (sub(mul(a, c), mul(b, d)), add(mul(a, d), mul(b, c)))
        if isinstance(e, ast.BinOp) and isinstance(e.op, ast.Div):
            (a, b), (c, d) = self.ctr(e.left), self.ctr(e.right)
            if d is not None or c is None:
                raise Untranslatable("division by a complex number")
            return (None if a is None else "(%s / %s)" % (a, c), None if b is None else "(%s / %s)" % (b, c))
        if isinstance(e, ast.Call) and isinstance(e.func, ast.Attribute):
            f = pyexpr.dotted(e.func)
            if f == "np.exp" and len(e.args) == 1 and not e.keywords:
                a, b = self.ctr(e.args[0])
                if b is None:
                    return ("(Transc.exp %s)" % (a or "0.0"), None)
                mag = None if a is None else "(Transc.exp %s)" % a
                re_, im_ = "(Transc.cos %s)" % b, "(Transc.sin %s)" % b
                if mag is not None:
                    re_, im_ = "(%s * %s)" % (mag, re_), "(%s * %s)" % (mag, im_)
                return (re_, im_)
        return (self.tr(e), None)

    # ---- statement blocks --------------------------------------------------------------------
    def assigned(self, stmts):
        out = []
        for s in strip_doc(stmts):
            if isinstance(s, ast.Assign) and len(s.targets) == 1 and isinstance(s.targets[0], ast.Name):
                out.append(s.targets[0].id)
            elif isinstance(s, ast.AugAssign) and isinstance(s.target, ast.Name):
                out.append(s.target.id)
            elif isinstance(s, ast.If):
                out += self.assigned(s.body) + self.assigned(s.orelse)
            else:
                raise Untranslatable("statement " + type(s).__name__)
        return out

    def lets(self, stmts):
        """Statement list -> list of (lean name, lean term) in order (shadowing = reassignment)."""
        out = []
        for s in strip_doc(stmts):
            if isinstance(s, ast.Assign) and len(s.targets) == 1 and isinstance(s.targets[0], ast.Name):
                self.assign(out, s.targets[0].id, s.value)
                continue
            if isinstance(s, ast.AugAssign) and isinstance(s.target, ast.Name):
                tgt = ast.Name(id=s.target.id, ctx=ast.Load())
                if isinstance(s.op, ast.Pow):
                    val = ast.BinOp(left=tgt, op=ast.Pow(), right=s.value)
                elif type(s.op) in AUG:
                    val = ast.BinOp(left=tgt, op=s.op, right=s.value)
                else:
                    raise Untranslatable("augmented " + type(s.op).__name__)
                self.assign(out, s.target.id, val)
                continue
            if isinstance(s, ast.If):
                test = self.cond(s.test)
                names = []
                for n in self.assigned(s.body) + self.assigned(s.orelse):
                    if n not in names:
                        names.append(n)
                saved = dict(self.cvars)
                terms = {}
                for n in names:
                    parts = []
                    for br in (s.body, s.orelse):
                        self.cvars = dict(saved)
                        sub = self.lets(br)
                        if n in self.cvars:
                            raise Untranslatable("complex variable assigned under if")
                        parts.append(render(prune(sub, [self.name(n)]), self.name(n)))
                    terms[n] = "(if %s then (%s) else (%s))" % (test, parts[0], parts[1])
                self.cvars = saved
                for n in names:
                    out.append((self.name(n), terms[n]))
                continue
            raise Untranslatable("statement " + type(s).__name__)
        return out

    def assign(self, out, name, value):
        a, b = self.ctr(value)
        nm = self.name(name)
        if b is None:
            if name in self.cvars:
                del self.cvars[name]
            if a != nm:
                out.append((nm, a))
        else:
            out.append((nm + "_re'", a or "0.0"))
            out.append((nm + "_im'", b))
            out.append((nm + "_re", nm + "_re'"))
            out.append((nm + "_im", nm + "_im'"))
            self.cvars[name] = (nm + "_re", nm + "_im")


IDENT = re.compile(r"[A-Za-z_][A-Za-z_0-9']*(?:\.[A-Za-z_][A-Za-z_0-9']*)*")


def idents(term):
    return {m.group(0) for m in IDENT.finditer(term) if not re.match(r"^[0-9]", m.group(0))}


def prune(lets, wanted):
    """keep the lets the names in `wanted` (transitively) depend on."""
    need = set(wanted)
    keep = []
    for nm, term in reversed(lets):
        if nm in need:
            keep.append((nm, term))
            need.discard(nm)
            need |= idents(term)
    return list(reversed(keep))


def render(lets, result):
    return " ".join("let %s := %s;" % (n, t) for n, t in lets) + (" " if lets else "") + result


def pretty(term, indent="  "):
    out, depth, cur = [], 0, ""
    for ch in term:
        cur += ch
        if ch == "(":
            depth += 1
        elif ch == ")":
            depth -= 1
        elif ch == ";" and depth == 0:
            out.append(cur.strip())
            cur = ""
    if cur.strip():
        out.append(cur.strip())
    return ("\n" + indent).join(out)


def free_names(term):
    """identifiers of a rendered term that are not let-bound, Lean words or qualified library names."""
    bound = set(re.findall(r"let ([A-Za-z_][A-Za-z_0-9']*) :=", term))
    out = set()
    for i in idents(term):
        if "." in i or i in LEAN_WORDS or i in bound:
            continue
        if re.match(r"^e[0-9]*$", i):  # exponent part of a literal such as 1e-10
            continue
        out.add(i)
    return out


class Gen:
    def __init__(self):
        self.out = []
        self.defs = set()

    def add(self, doc, name, params, ty, term, allowed=()):
        """params: list of (name, type) ; checks that every free identifier is a parameter or a known def."""
        pn = {p for p, _ in params}
        extra = free_names(term) - pn - self.defs - set(allowed)
        if extra:
            raise Untranslatable("%s: unexpected free names %s" % (name, sorted(extra)))
        used = [(p, t) for p, t in params]
        sig = "".join(" (%s : %s)" % (p, t) for p, t in used)
        self.out.append("/-- %s -/\ndef %s%s : %s :=\n  %s\n" % (doc, name, sig, ty, pretty(term)))
        self.defs.add(name)


def iexpr(e, names):
    """integer expressions: names, literals, unary minus, + - //"""
    if isinstance(e, ast.Name) and e.id in names:
        return e.id
    if isinstance(e, ast.Constant) and isinstance(e.value, int) and not isinstance(e.value, bool):
        return "(%d : Int)" % e.value if e.value >= 0 else "(-%d : Int)" % -e.value
    if isinstance(e, ast.UnaryOp) and isinstance(e.op, ast.USub):
        return "(-%s)" % iexpr(e.operand, names)
    if isinstance(e, ast.BinOp):
        a, b = iexpr(e.left, names), iexpr(e.right, names)
        if isinstance(e.op, ast.Add):
            return "(%s + %s)" % (a, b)
        if isinstance(e.op, ast.Sub):
            return "(%s - %s)" % (a, b)
        if isinstance(e.op, ast.FloorDiv):
            return "(Int.fdiv %s %s)" % (a, b)
    raise Untranslatable("integer expression " + ast.unparse(e))


def int_of_ceil(e):
    """`int(np.ceil(E))` -> E"""
    if (isinstance(e, ast.Call) and ast.unparse(e.func) == "int" and len(e.args) == 1
            and isinstance(e.args[0], ast.Call) and ast.unparse(e.args[0].func) == "np.ceil"
            and len(e.args[0].args) == 1):
        return e.args[0].args[0]
    return None


def append_pair(s, lst):
    """`<lst>.append((A, B))` -> (A, B)"""
    if (isinstance(s, ast.Expr) and isinstance(s.value, ast.Call) and ast.unparse(s.value.func) == lst + ".append"
            and len(s.value.args) == 1 and isinstance(s.value.args[0], ast.Tuple) and len(s.value.args[0].elts) == 2):
        return s.value.args[0].elts
    return None


A = "α"


# ---- threshold -------------------------------------------------------------------------------
def gen_threshold(g, cfg):
    for n in cfg.body:
        if isinstance(n, ast.AnnAssign) and isinstance(n.target, ast.Name) and n.target.id == "EFFECTIVE_SUPPORT_THRESHOLD":
            if isinstance(n.value, ast.Constant) and isinstance(n.value.value, float):
                g.out.append("/-- `config.EFFECTIVE_SUPPORT_THRESHOLD` -/\ndef threshold : α := %s\n" % lit(n.value.value))
                g.defs.add("threshold")
                return
    raise Untranslatable("config.EFFECTIVE_SUPPORT_THRESHOLD is not a float literal")


# ---- class table -----------------------------------------------------------------------------
BANKS = [
    ("TriangularOverlappingFilterBank", "tri"),
    ("Fbank", "fbank"),
    ("GaborFilterBank", "gabor"),
    ("ComplexGammatoneFilterBank", "gammatone"),
]
COMPLEX_DT = {"np.complex128": "false", "np.float64": "true"}


def prop_body(cls, name):
    f = pyexpr.find_func(cls, name)
    body = strip_doc(f.body)
    if len(body) != 1 or not isinstance(body[0], ast.Return):
        raise Untranslatable("%s.%s is not a single return" % (cls.name, name))
    return body[0].value


def impulse_dtype_real(cls, ex):
    """Lean Bool term: is the array returned by get_impulse_response of a real dtype?"""
    f = pyexpr.find_func(cls, "get_impulse_response")
    body = strip_doc(f.body)
    # form 1: `res = np.zeros(width, dtype=D)` ... `return res`
    zeros = [s for s in body if isinstance(s, ast.Assign) and ast.unparse(s.targets[0]) == "res"
             and isinstance(s.value, ast.Call) and ast.unparse(s.value.func) == "np.zeros"]
    if zeros:
        if len(zeros) != 1 or not (isinstance(body[-1], ast.Return) and ast.unparse(body[-1].value) == "res"):
            raise Untranslatable(cls.name + ".get_impulse_response buffer")
        kw = {k.arg: k.value for k in zeros[0].value.keywords}
        d = kw.get("dtype")
        if d is None:
            raise Untranslatable("np.zeros without dtype")
        if isinstance(d, ast.IfExp):
            t, a, b = d.test, ast.unparse(d.body), ast.unparse(d.orelse)
            if a in COMPLEX_DT and b in COMPLEX_DT and ex.is_flag(t):
                return "(if %s = true then %s else %s)" % (ex.flag(t), COMPLEX_DT[a], COMPLEX_DT[b])
            raise Untranslatable("dtype expression " + ast.unparse(d))
        if ast.unparse(d) in COMPLEX_DT:
            return COMPLEX_DT[ast.unparse(d)]
        raise Untranslatable("dtype " + ast.unparse(d))
    # form 2: `if self.is_analytic: ... return np.fft.ifft(..) else: ... return np.fft.irfft(..)`
    if len(body) == 1 and isinstance(body[0], ast.If) and ast.unparse(body[0].test) == "self.is_analytic":
        def ret(br):
            br = strip_doc(br)
            if not br or not isinstance(br[-1], ast.Return) or not isinstance(br[-1].value, ast.Call):
                raise Untranslatable("Fbank impulse branch")
            fn = ast.unparse(br[-1].value.func)
            if fn == "np.fft.ifft":
                return "false"
            if fn == "np.fft.irfft":
                return "true"
            raise Untranslatable("Fbank impulse returns " + fn)
        return "(if is_analytic_%s analytic = true then %s else %s)" % ("fbank", ret(body[0].body), ret(body[0].orelse))
    raise Untranslatable(cls.name + ".get_impulse_response shape")


def gen_table(g, tree):
    g.out.append("/-! ## class table (`analytic` is the constructor flag of the triangular banks; `wrap_below` is the\n"
                 "Gabor / gammatone attribute `_wrap_below`) -/\n")
    for cname, short in BANKS:
        cls = pyexpr.find_class(tree, cname)
        ex = CX(boolnames=["analytic", "wrap_below"])
        for prop in ("is_real", "is_analytic", "is_zero_phase"):
            term = ex.btr(prop_body(cls, prop))
            g.add("`%s.%s`" % (cname, prop), "%s_%s" % (prop, short), [("analytic", "Bool"), ("wrap_below", "Bool")]
                  if short in ("gabor", "gammatone") else [("analytic", "Bool")], "Bool", term)
        if short in ("gabor", "gammatone"):
            params = [("analytic", "Bool"), ("wrap_below", "Bool")]
        else:
            params = [("analytic", "Bool")]
        g.add("is the buffer `%s.get_impulse_response` returns of a real dtype?" % cname,
              "impulse_dtype_real_%s" % short, params, "Bool", impulse_dtype_real(cls, ex))


# ---- triangular / Fbank supports ---------------------------------------------------------------
def gen_tri_supports(g, tree, cname, short):
    cls = pyexpr.find_class(tree, cname)
    f = pyexpr.find_func(cls, "supports")
    loops = [s for s in strip_doc(f.body) if isinstance(s, ast.For)]
    if len(loops) != 1:
        raise Untranslatable(cname + ".supports: one for-loop expected")
    body = strip_doc(loops[0].body)
    want = [
        "left = hertz_to_angular(self._vertices[idx], self._rate)",
        "mid = hertz_to_angular(self._vertices[idx + 1], self._rate)",
        "right = hertz_to_angular(self._vertices[idx + 2], self._rate)",
    ]
    if [ast.unparse(s) for s in body[:3]] != want:
        raise Untranslatable(cname + ".supports: vertex statements changed")
    rest = body[3:]
    k = None
    for i, s in enumerate(rest):
        if isinstance(s, ast.Assign) and ast.unparse(s.targets[0]) == "K" and int_of_ceil(s.value) is not None:
            if ast.unparse(int_of_ceil(s.value)) != "K":
                raise Untranslatable(cname + ".supports: int(np.ceil(.)) of something else")
            k = i
            break
    if k is None or k + 2 != len(rest):
        raise Untranslatable(cname + ".supports: `K = int(np.ceil(K))` then one append expected")
    ex = CX()
    lets = ex.lets(rest[:k])
    term = render(prune(lets, ["K"]), "K")
    p3 = [("left", A), ("mid", A), ("right", A)]
    g.add("`%s.supports`: `K` before `K = int(np.ceil(K))` (angles of the three vertices)" % cname,
          short + "_K", p3, A, term)
    g.add("`K = int(np.ceil(K))`", short + "_K_int", p3, "Int", "Rnd.toInt (Rnd.ceil (%s_K left mid right))" % short)
    pair = append_pair(rest[k + 1], "supports")
    if pair is None:
        raise Untranslatable(cname + ".supports: append")
    g.add("the pair appended to `supports` (`//` is floor division)", short + "_sup", [("K", "Int")], "Int × Int",
          "(%s, %s)" % (iexpr(pair[0], {"K"}), iexpr(pair[1], {"K"})), allowed=["Int"])


# ---- Gabor --------------------------------------------------------------------------------------
def gen_gabor(g, tree):
    cls = pyexpr.find_class(tree, "GaborFilterBank")
    init = pyexpr.find_func(cls, "__init__")
    body = strip_doc(init.body)
    keep = []
    for s in body:
        if isinstance(s, ast.Assign) and ast.unparse(s.targets[0]) in ("log_2", "log_pi", "t_support_const", "f_support_const"):
            keep.append(s)
        if isinstance(s, ast.If) and ast.unparse(s.test) == "scale_l2_norm":
            keep.append(s)
    ex = CX(boolnames=["scale_l2_norm"])
    tsc_lets = prune(ex.lets(keep), ["t_support_const"])
    g.add("`GaborFilterBank.__init__`: `t_support_const` after the `scale_l2_norm` branch", "gabor_t_support_const",
          [("scale_l2_norm", "Bool")], A, render(tsc_lets, "t_support_const"))
    loops = [s for s in body if isinstance(s, ast.For)]
    if len(loops) != 1:
        raise Untranslatable("GaborFilterBank.__init__: one for-loop expected")
    lb = strip_doc(loops[0].body)
    logstd = [s for s in lb if isinstance(s, ast.Assign) and ast.unparse(s.targets[0]) == "log_std"]
    branch = [s for s in lb if isinstance(s, ast.If) and ast.unparse(s.test) == "scale_l2_norm"]
    if len(logstd) != 1 or len(branch) != 1:
        raise Untranslatable("GaborFilterBank.__init__: log_std / scale_l2_norm branch")

    def pick(stmts):
        v = [s.value for s in strip_doc(stmts) if isinstance(s, ast.Assign) and ast.unparse(s.targets[0]) == "diff_samps"]
        if len(v) != 1 or int_of_ceil(v[0]) is None:
            raise Untranslatable("diff_samps = int(np.ceil(.)) expected once per branch")
        inner = int_of_ceil(v[0])
        if not (isinstance(inner, ast.BinOp) and isinstance(inner.op, ast.Mult) and ast.unparse(inner.left) == "std"
                and isinstance(inner.right, ast.Call) and ast.unparse(inner.right.func) == "np.sqrt"
                and len(inner.right.args) == 1):
            raise Untranslatable("diff_samps is not int(np.ceil(std * np.sqrt(R)))")
        return inner, inner.right.args[0]

    (in_t, rad_t), (in_f, rad_f) = pick(branch[0].body), pick(branch[0].orelse)
    ex2 = CX(boolnames=["scale_l2_norm"])
    pre = [("t_support_const", "gabor_t_support_const scale_l2_norm")] + ex2.lets(logstd)
    prm = [("scale_l2_norm", "Bool"), ("std", A)]
    rad = "(if scale_l2_norm = true then %s else %s)" % (ex2.tr(rad_t), ex2.tr(rad_f))
    g.add("the radicand `R` of `diff_samps = int(np.ceil(std * np.sqrt(R)))`", "gabor_rad", prm, A,
          render(pre, rad))
    val = "(if scale_l2_norm = true then %s else %s)" % (ex2.tr(in_t), ex2.tr(in_f))
    g.add("the expression under `int(np.ceil(.))`", "gabor_diff_real", prm, A, render(pre, val))
    g.add("`diff_samps`", "gabor_diff_samps", prm, "Int", "Rnd.toInt (Rnd.ceil (gabor_diff_real scale_l2_norm std))")
    pair = None
    for s in lb:
        p = append_pair(s, "supports")
        if p is not None:
            pair = p
    if pair is None:
        raise Untranslatable("GaborFilterBank.__init__: supports.append")
    g.add("the pair appended to `supports`", "gabor_sup", [("diff_samps", "Int")], "Int × Int",
          "(%s, %s)" % (iexpr(pair[0], {"diff_samps"}), iexpr(pair[1], {"diff_samps"})), allowed=["Int"])
    # impulse response: one term
    f = pyexpr.find_func(cls, "get_impulse_response")
    fb = strip_doc(f.body)
    pre_s, loop = [], None
    for s in fb:
        if isinstance(s, ast.For):
            loop = s
            break
        if isinstance(s, ast.Assign) and ast.unparse(s.targets[0]) in ("center_ang", "std"):
            if ast.unparse(s.value) not in SUBS:
                raise Untranslatable("Gabor impulse: " + ast.unparse(s))
            continue
        if isinstance(s, ast.Assign) and ast.unparse(s.targets[0]) == "res":
            continue
        pre_s.append(s)
    if loop is None or ast.unparse(loop.iter) != "range(width + 1)" or ast.unparse(loop.target) != "t":
        raise Untranslatable("Gabor impulse: loop over range(width + 1) expected")
    lbody = strip_doc(loop.body)
    vals = [s for s in lbody if isinstance(s, ast.Assign) and ast.unparse(s.targets[0]) == "val"]
    stores = [ast.unparse(s) for s in lbody if not (isinstance(s, ast.Assign) and ast.unparse(s.targets[0]) == "val")]
    if stores != ["if t != width:\n    res[t] += val", "if t:\n    res[-t] += val.conj()"]:
        raise Untranslatable("Gabor impulse: store pattern changed: %r" % stores)
    if len(vals) != 2 or ast.unparse(vals[1]) != "val = np.exp(val)":
        raise Untranslatable("Gabor impulse: `val = E; val = np.exp(val)` expected")
    ex3 = CX(boolnames=["scale_l2_norm"])
    lets = ex3.lets(pre_s + [vals[0]])
    if "val" not in ex3.cvars:
        raise Untranslatable("Gabor impulse exponent is not complex")
    g.add("`GaborFilterBank.get_impulse_response`: real part of the exponent of the term for time `t` (log-envelope)",
          "gabor_logenv", [("scale_l2_norm", "Bool"), ("std", A), ("t", A)], A, render(prune(lets, ["val_re"]), "val_re"))
    g.add("imaginary part of the exponent (phase)", "gabor_phase", [("center_ang", A), ("t", A)], A,
          render(prune(lets, ["val_im"]), "val_im"))
    g.add("`|np.exp(val)|`", "gabor_env", [("scale_l2_norm", "Bool"), ("std", A), ("t", A)], A,
          "Transc.exp (gabor_logenv scale_l2_norm std t)")


# ---- gammatone ------------------------------------------------------------------------------------
def gen_gammatone(g, tree):
    cls = pyexpr.find_class(tree, "ComplexGammatoneFilterBank")
    init = pyexpr.find_func(cls, "__init__")
    loops = [s for s in strip_doc(init.body) if isinstance(s, ast.For)]
    if len(loops) != 1:
        raise Untranslatable("gammatone __init__: one for-loop expected")
    off = [s for s in strip_doc(loops[0].body) if isinstance(s, ast.If) and ast.unparse(s.test) == "max_centered"]
    if len(off) != 1:
        raise Untranslatable("gammatone __init__: `if max_centered` expected once")
    ex = CX(boolnames=["max_centered"])
    lets = ex.lets(off)
    if [n for n, _ in lets] != ["offset"]:
        raise Untranslatable("gammatone __init__: the max_centered branch assigns %r" % [n for n, _ in lets])
    g.add("`ComplexGammatoneFilterBank.__init__`: `offset`", "gt_offset",
          [("max_centered", "Bool"), ("order", A), ("alpha", A)], A, lets[0][1])
    # _h
    h = pyexpr.find_func(cls, "_h")
    if [a.arg for a in h.args.args] != ["self", "t", "idx"]:
        raise Untranslatable("_h signature")
    hb = strip_doc(h.body)
    guard = [s for s in hb if isinstance(s, ast.If)]
    if len(guard) != 1 or ast.unparse(guard[0]) != "if t <= offset:\n    return 0j":
        raise Untranslatable("_h guard changed")
    if not (isinstance(hb[-1], ast.Return) and ast.unparse(hb[-1].value) == "np.exp(r)"):
        raise Untranslatable("_h does not return np.exp(r)")
    exh = CX()
    hl = exh.lets([s for s in hb[:-1] if not isinstance(s, ast.If)])
    if "r" not in exh.cvars:
        raise Untranslatable("_h exponent is not complex")
    hp = [("c", A), ("alpha", A), ("order", A), ("offset", A), ("t", A)]
    g.add("`_h`: real part of the exponent `r` (log-envelope), for `t > offset`", "gt_h_logenv", hp, A,
          render(prune(hl, ["r_re"]), "r_re"))
    g.add("`_h`: imaginary part of the exponent `r` (phase)", "gt_h_phase", [("xi", A), ("offset", A), ("t", A)], A,
          render(prune(hl, ["r_im"]), "r_im"))
    g.add("`|_h(t, idx)|`: `0j` when `t <= offset`, else `|np.exp(r)|`", "gt_h_env", hp, A,
          "if %s then 0.0 else Transc.exp (gt_h_logenv c alpha order offset t)" % CX().cond(guard[0].test))
    # _calculate_temp_support
    f = pyexpr.find_func(cls, "_calculate_temp_support")
    fb = strip_doc(f.body)
    if not (len(fb) >= 3 and isinstance(fb[-2], ast.If) and ast.unparse(fb[-2].test) == "n == 1"
            and isinstance(fb[-1], ast.Return)):
        raise Untranslatable("_calculate_temp_support: `if n == 1: .. else: ..; return ..` expected")
    head = [s for s in fb[:-2]]
    eps_term = None
    for s in head:
        if isinstance(s, ast.Assign) and ast.unparse(s.targets[0]) == "eps":
            eps_term = CX().tr(s.value)
            continue
        if not (isinstance(s, ast.Assign) and ast.unparse(s) in (
                "alpha = self._alphas[idx]", "c = self._cs[idx]", "offset = self._offsets[idx]", "n = self._order")):
            raise Untranslatable("_calculate_temp_support: unexpected statement " + ast.unparse(s))
    if eps_term is None:
        raise Untranslatable("_calculate_temp_support: eps")

    def h_call(ex_, e):
        # np.abs(self._h(E, idx))
        if (len(e.args) == 1 and isinstance(e.args[0], ast.Call) and ast.unparse(e.args[0].func) == "self._h"
                and len(e.args[0].args) == 2 and ast.unparse(e.args[0].args[1]) == "idx"):
            return "(gt_h_env c alpha n offset %s)" % ex_.tr(e.args[0].args[0])
        raise Untranslatable("np.abs of " + ast.unparse(e))

    def d_call(ex_, e):
        if len(e.args) == 1 and not e.keywords:
            return "(gt_d c alpha n %s)" % ex_.tr(e.args[0])
        raise Untranslatable("_d call")

    pre = [("eps", eps_term)]
    br1 = strip_doc(fb[-2].body)
    if len(br1) != 1 or not isinstance(br1[0], ast.Assign) or ast.unparse(br1[0].targets[0]) != "right":
        raise Untranslatable("order-1 branch")
    v = br1[0].value
    if not (isinstance(v, ast.Call) and ast.unparse(v.func) == "int" and len(v.args) == 1):
        raise Untranslatable("order-1 branch is not int(.)")
    exo = CX(rename={"n": "n"})
    g.add("order 1: `right` (the integral float under `int(.)`)", "gt_right_order1", [("c", A), ("alpha", A)], A,
          render(pre, exo.tr(v.args[0])))
    br2 = strip_doc(fb[-2].orelse)
    if not (len(br2) == 4 and isinstance(br2[0], ast.FunctionDef)
            and [a.arg for a in br2[0].args.args] == ["t"] and isinstance(br2[3], ast.While)):
        raise Untranslatable("Newton branch: def _d / right / h_0 / while expected")
    dbody = strip_doc(br2[0].body)
    if not (isinstance(dbody[-1], ast.Return) and isinstance(dbody[-1].value, ast.Name)):
        raise Untranslatable("_d return")
    exd = CX()
    dl = exd.lets(dbody[:-1])
    g.add("`_d(t)`: derivative of the envelope", "gt_d", [("c", A), ("alpha", A), ("n", A), ("t", A)], A,
          render(prune(dl, [dbody[-1].value.id]), dbody[-1].value.id))
    calls = {"np.abs(": h_call, br2[0].name + "(": d_call}
    exn = CX(calls=calls)
    if not (isinstance(br2[1], ast.Assign) and ast.unparse(br2[1].targets[0]) == "right"):
        raise Untranslatable("Newton start")
    g.add("Newton search: starting point", "gt_newton_start", [("alpha", A), ("n", A)], A, exn.tr(br2[1].value))
    if not (isinstance(br2[2], ast.Assign) and ast.unparse(br2[2].targets[0]) == "h_0"):
        raise Untranslatable("Newton h_0")
    hp2 = [("c", A), ("alpha", A), ("n", A), ("offset", A), ("right", A)]
    g.add("Newton search: `h_0` as a function of `right`", "gt_newton_h", hp2, A, exn.tr(br2[2].value))
    w = br2[3]
    g.add("Newton search: the `while` test", "gt_newton_continue", [("h_0", A)], "Bool",
          render(pre, "decide (%s)" % exn.cond(w.test)))
    wb = strip_doc(w.body)
    if len(wb) != 3 or ast.unparse(wb[2]) != ast.unparse(br2[2]):
        raise Untranslatable("Newton loop body: d_0 / right update / the same h_0 expression expected")
    sl = exn.lets(wb[:2])
    g.add("Newton search: the new `right` after one pass of the loop body", "gt_newton_step",
          [("c", A), ("alpha", A), ("n", A), ("right", A), ("h_0", A)], A, render(prune(sl, ["right"]), "right"))
    r = fb[-1].value
    if not (isinstance(r, ast.Tuple) and len(r.elts) == 2):
        raise Untranslatable("_calculate_temp_support return")
    parts = []
    for e in r.elts:
        if not (isinstance(e, ast.Call) and ast.unparse(e.func) == "int" and len(e.args) == 1):
            raise Untranslatable("support bound is not int(.)")
        parts.append("Rnd.toInt %s" % exn.tr(e.args[0]))
    g.add("the returned pair", "gt_sup", [("offset", A), ("right", A)], "Int × Int", "(%s, %s)" % tuple(parts))


# ---- triangular impulse response ------------------------------------------------------------------
def gen_tri_impulse(g, tree):
    cls = pyexpr.find_class(tree, "TriangularOverlappingFilterBank")
    f = pyexpr.find_func(cls, "get_impulse_response")
    fb = strip_doc(f.body)
    want = [
        "left = hertz_to_angular(self._vertices[filt_idx], self._rate)",
        "mid = hertz_to_angular(self._vertices[filt_idx + 1], self._rate)",
        "right = hertz_to_angular(self._vertices[filt_idx + 2], self._rate)",
    ]
    if [ast.unparse(s) for s in fb[:3]] != want or not ast.unparse(fb[3]).startswith("res = np.zeros(width"):
        raise Untranslatable("tri impulse: head changed")
    rest = fb[4:]
    li = [i for i, s in enumerate(rest) if isinstance(s, ast.For)]
    if len(li) != 1:
        raise Untranslatable("tri impulse: one loop expected")
    pre, loop, post = rest[: li[0]], rest[li[0]], rest[li[0] + 1:]
    if ast.unparse(loop.iter) != "range(1, width + 1)" or ast.unparse(loop.target) != "t":
        raise Untranslatable("tri impulse: loop range changed")
    ex = CX(boolnames=["analytic"])
    pl = ex.lets(pre)
    p4 = [("analytic", "Bool"), ("left", A), ("mid", A), ("right", A)]
    g.add("`get_impulse_response`: `div_term`", "tri_ir_div_term", p4[1:], A, render(prune(pl, ["div_term"]), "div_term"))
    g.add("`denom` (after `denom *= (int(self._analytic) + 1) * np.pi`)", "tri_ir_denom", p4, A,
          render(prune(pl, ["denom"]), "denom"))
    lb = strip_doc(loop.body)
    if not (len(lb) == 3 and isinstance(lb[0], ast.If) and ast.unparse(lb[0].test) == "self._analytic"
            and ast.unparse(lb[1]) == "val = numer / t ** 2"):
        raise Untranslatable("tri impulse: loop body changed")
    store = ast.unparse(lb[2])
    if store != "if t < width:\n    res[t] += val\n    res[-t] += val.conj()\nelse:\n    res[0] += val":
        raise Untranslatable("tri impulse: store pattern changed")
    p5 = [("left", A), ("mid", A), ("right", A), ("div_term", A), ("t", A)]
    exa = CX()
    la = exa.lets(strip_doc(lb[0].body) + [lb[1]])
    if "val" not in exa.cvars:
        raise Untranslatable("tri impulse: analytic value is not complex")
    g.add("analytic bank: real part of `val` at time `t`", "tri_ir_val_re", p5, A, render(prune(la, ["val_re"]), "val_re"))
    g.add("analytic bank: imaginary part of `val` at time `t`", "tri_ir_val_im", p5, A, render(prune(la, ["val_im"]), "val_im"))
    exr = CX()
    lr = exr.lets(strip_doc(lb[0].orelse) + [lb[1]])
    if "val" in exr.cvars:
        raise Untranslatable("tri impulse: real value is complex")
    g.add("real bank: `val` at time `t`", "tri_ir_val", p5, A, render(prune(lr, ["val"]), "val"))
    if not (len(post) >= 3 and ast.unparse(post[-3]) == "res[0] += numer / 2" and ast.unparse(post[-2]) == "res /= denom"
            and ast.unparse(post[-1]) == "return res"):
        raise Untranslatable("tri impulse: tail changed")
    exz = CX()
    lz = exz.lets(post[:-3])
    g.add("the `t = 0` term `numer / 2`", "tri_ir_zero", [("left", A), ("mid", A), ("right", A), ("div_term", A)], A,
          render(prune(lz, ["numer"]), "(numer / 2.0)"))


PRELUDE = """/- GENERATED by harness/translate/banktime.py from {src} -- do not edit; regenerated on every check. -/
import PdsVerif.Num
set_option linter.unusedVariables false
namespace PdsVerif.Gen.BankTime
open PdsVerif

/-- rounding primitives the source calls: `np.floor`, `np.ceil` (integral floats) and Python's `int(x)`
(truncation toward zero of a finite float).  Law-free; `Float` here, the reals in `Lemmas/BankTime.lean`. -/
class Rnd (α : Type) where
  floor : α → α
  ceil : α → α
  toInt : α → Int

instance : Rnd Float where
  floor := Float.floor
  ceil := Float.ceil
  toInt := fun x => x.toInt64.toInt

variable {{α : Type}} [Add α] [Sub α] [Mul α] [Div α] [Neg α] [OfScientific α] [Max α] [Min α]
  [LT α] [LE α] [DecidableLT α] [DecidableLE α] [Transc α] [Rnd α]
"""


def generate(repo):
    filt = ast.parse(open(repo + "/" + FILTERS).read())
    cfg = ast.parse(open(repo + "/" + CONFIG).read())
    g = Gen()
    g.out.append(PRELUDE.format(src=FILTERS + " and " + CONFIG))
    gen_threshold(g, cfg)
    gen_table(g, filt)
    g.out.append("/-! ## temporal supports of the triangular banks -/\n")
    gen_tri_supports(g, filt, "TriangularOverlappingFilterBank", "tri")
    gen_tri_supports(g, filt, "Fbank", "fbank")
    g.out.append("/-! ## Gabor -/\n")
    gen_gabor(g, filt)
    g.out.append("/-! ## complex gammatone -/\n")
    gen_gammatone(g, filt)
    g.out.append("/-! ## triangular impulse response (closed form) -/\n")
    gen_tri_impulse(g, filt)
    g.out.append("end PdsVerif.Gen.BankTime\n")
    return {"BankTime.lean": "\n".join(g.out)}


if __name__ == "__main__":
    import sys

    print(generate(sys.argv[1] if len(sys.argv) > 1 else "/repo")["BankTime.lean"])

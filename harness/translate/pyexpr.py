"""Tiny, deliberately syntactic Python -> Lean translator for scalar arithmetic.

Subset: straight-line assignments, if/elif/else chains whose branches either all assign the same
single name or all return, and expressions over + - * / ** unary-minus, numeric literals,
names, ``self.attr`` and a fixed table of calls (np.log, np.exp, np.log2, np.sqrt, np.cos,
np.sin, max, min, abs).  Anything else raises ``Untranslatable`` -- the translator never guesses.

Numeric literals are emitted as Lean scientific literals, i.e. exact rationals over the reals and
the correctly rounded double over ``Float`` -- the same value CPython gives the literal.
"""
import ast


class Untranslatable(Exception):
    pass


CALLS = {
    "np.log": "Transc.log",
    "np.exp": "Transc.exp",
    "np.log2": "Transc.log2",
    "np.sqrt": "Transc.sqrt",
    "np.cos": "Transc.cos",
    "np.sin": "Transc.sin",
    "math.log": "Transc.log",
    "math.exp": "Transc.exp",
    "math.sqrt": "Transc.sqrt",
}


def lit(v):
    if isinstance(v, bool):
        raise Untranslatable("bool literal")
    if isinstance(v, int):
        if v < 0:
            return "(-%d.0)" % -v
        return "%d.0" % v
    if isinstance(v, float):
        r = repr(v)
        if "inf" in r or "nan" in r:
            raise Untranslatable("non-finite literal")
        neg = r.startswith("-")
        if neg:
            r = r[1:]
        if "." not in r and "e" not in r:
            r += ".0"
        return "(-%s)" % r if neg else r
    raise Untranslatable("literal %r" % (v,))


def dotted(node):
    if isinstance(node, ast.Name):
        return node.id
    if isinstance(node, ast.Attribute):
        return dotted(node.value) + "." + node.attr
    raise Untranslatable(ast.dump(node))


class Expr:
    def __init__(self, selfattrs=None, rename=None):
        self.selfattrs = selfattrs if selfattrs is not None else set()
        self.rename = rename or {}

    def name(self, n):
        return self.rename.get(n, n)

    def tr(self, e):
        if isinstance(e, ast.Constant):
            return lit(e.value)
        if isinstance(e, ast.Name):
            return self.name(e.id)
        if isinstance(e, ast.Attribute):
            d = dotted(e)
            if d.startswith("self."):
                a = d[5:].lstrip("_")
                self.selfattrs.add(a)
                return self.name(a)
            if d in ("np.pi", "math.pi"):
                return "Transc.pi"
            raise Untranslatable("attribute " + d)
        if isinstance(e, ast.UnaryOp) and isinstance(e.op, ast.USub):
            return "(-%s)" % self.tr(e.operand)
        if isinstance(e, ast.BinOp):
            a, b = self.tr(e.left), self.tr(e.right)
            if isinstance(e.op, ast.Add):
                return "(%s + %s)" % (a, b)
            if isinstance(e.op, ast.Sub):
                return "(%s - %s)" % (a, b)
            if isinstance(e.op, ast.Mult):
                return "(%s * %s)" % (a, b)
            if isinstance(e.op, ast.Div):
                return "(%s / %s)" % (a, b)
            if isinstance(e.op, ast.Pow):
                if isinstance(e.left, ast.Constant) and e.left.value == 2:
                    return "(Transc.pow2 %s)" % b
                if isinstance(e.right, ast.Constant) and e.right.value == 2:
                    return "(%s * %s)" % (a, a)
                if isinstance(e.right, ast.Constant) and e.right.value == 0.5:
                    return "(Transc.sqrt %s)" % a
                return "(Transc.rpow %s %s)" % (a, b)
            raise Untranslatable("binop " + type(e.op).__name__)
        if isinstance(e, ast.Call):
            f = dotted(e.func)
            args = [self.tr(a) for a in e.args]
            if e.keywords:
                raise Untranslatable("keywords in call")
            if f in CALLS and len(args) == 1:
                return "(%s %s)" % (CALLS[f], args[0])
            if f == "max" and len(args) == 2:
                return "(Max.max %s %s)" % tuple(args)
            if f == "min" and len(args) == 2:
                return "(Min.min %s %s)" % tuple(args)
            if f == "float" and len(args) == 1:
                return args[0]
            raise Untranslatable("call " + f)
        raise Untranslatable(ast.dump(e))

    def cond(self, e):
        if isinstance(e, ast.Compare) and len(e.ops) == 1:
            a, b = self.tr(e.left), self.tr(e.comparators[0])
            op = e.ops[0]
            if isinstance(op, ast.Lt):
                return "%s < %s" % (a, b)
            if isinstance(op, ast.Gt):
                return "%s < %s" % (b, a)
            if isinstance(op, ast.LtE):
                return "%s ≤ %s" % (a, b)
            if isinstance(op, ast.GtE):
                return "%s ≤ %s" % (b, a)
        if isinstance(e, ast.BoolOp):
            j = " ∧ " if isinstance(e.op, ast.And) else " ∨ "
            return "(" + j.join("(%s)" % self.cond(v) for v in e.values) + ")"
        raise Untranslatable("condition " + ast.dump(e))

    def branch_kind(self, body):
        """('ret', expr) | ('asg', name, expr) for a single-statement-tail branch."""
        if len(body) == 1 and isinstance(body[0], ast.Return):
            return ("ret", body[0].value)
        if (
            len(body) == 1
            and isinstance(body[0], ast.Assign)
            and len(body[0].targets) == 1
            and isinstance(body[0].targets[0], ast.Name)
        ):
            return ("asg", body[0].targets[0].id, body[0].value)
        return None

    def if_chain(self, node):
        """Return (kind, name|None, lean_term) for an if/elif/else chain."""
        k = self.branch_kind(node.body)
        if k is None:
            raise Untranslatable("if-branch is not a single return/assignment")
        if len(node.orelse) == 1 and isinstance(node.orelse[0], ast.If):
            ek, en, et = self.if_chain(node.orelse[0])
        else:
            kk = self.branch_kind(node.orelse)
            if kk is None:
                raise Untranslatable("else-branch is not a single return/assignment")
            ek, en, et = kk[0], (kk[1] if kk[0] == "asg" else None), self.tr(kk[-1])
        if k[0] != ek or (k[0] == "asg" and k[1] != en):
            raise Untranslatable("if-branches disagree in shape")
        term = "(if %s then %s else %s)" % (self.cond(node.test), self.tr(k[-1]), et)
        return k[0], (k[1] if k[0] == "asg" else None), term

    def body(self, stmts):
        """Translate a function body to a Lean term."""
        out = []
        stmts = [
            s
            for s in stmts
            if not (isinstance(s, ast.Expr) and isinstance(s.value, ast.Constant))
        ]
        for i, s in enumerate(stmts):
            if isinstance(s, ast.Return):
                out.append(self.tr(s.value))
                return "\n  ".join(out)
            if isinstance(s, ast.Assign) and len(s.targets) == 1:
                t = s.targets[0]
                if not isinstance(t, ast.Name):
                    raise Untranslatable("assignment target")
                if isinstance(s.value, ast.Constant) and s.value.value is None:
                    continue
                out.append("let %s := %s;" % (self.name(t.id), self.tr(s.value)))
                continue
            if isinstance(s, ast.If):
                kind, nm, term = self.if_chain(s)
                if kind == "ret":
                    out.append(term)
                    if i != len(stmts) - 1:
                        raise Untranslatable("code after returning if-chain")
                    return "\n  ".join(out)
                out.append("let %s := %s;" % (self.name(nm), term))
                continue
            raise Untranslatable("statement " + type(s).__name__)
        raise Untranslatable("no return")


def find_class(tree, name):
    for n in tree.body:
        if isinstance(n, ast.ClassDef) and n.name == name:
            return n
    raise Untranslatable("class %s not found" % name)


def find_func(scope, name):
    body = scope.body
    for n in body:
        if isinstance(n, ast.FunctionDef) and n.name == name:
            return n
    raise Untranslatable("function %s not found" % name)


HEADER = """/- GENERATED by harness/translate from {src} -- do not edit; regenerated on every check. -/
import PdsVerif.Num
namespace PdsVerif.Gen.{ns}
open PdsVerif
variable {{α : Type}} [Add α] [Sub α] [Mul α] [Div α] [Neg α] [OfScientific α] [Max α] [Min α]
  [LT α] [LE α] [DecidableLT α] [DecidableLE α] [Transc α]
"""

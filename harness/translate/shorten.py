"""_sphere.py -> lean/PdsVerif/Generated/ShortenConsts.lean (property C13).

Purely syntactic (``ast``): module-level constant assignments (chains ``A = B = 3``, tuple
assignments, ``1 << LPCQUANT``), the three tables the shorten path uses (``ULAW2PCM``,
``ULAW_OUTWARD``; ``ALAW2PCM`` is emitted for completeness of the file's tables but unused by C13),
and a handful of literals / name sets that live inside ``copy_shortened_samples`` and
``copy_samples`` (type limit ``ftype >= 9``, initial-mean table, the set of block commands, the set
of types that are converted to PCM, the first read size).  Anything outside the expected shape
raises ``Untranslatable`` -- never a guess.
"""
import ast

from .pyexpr import Untranslatable

SRC = "src/pydrobert/speech/_sphere.py"

# every name the Lean model refers to; the translator refuses to run when one is missing
REQUIRED_INTS = """
FN_DIFF0 FN_DIFF1 FN_DIFF2 FN_DIFF3 FN_QUIT FN_BLOCKSIZE FN_BITSHIFT FN_QLPC FN_ZERO
TYPE_AU1 TYPE_S8 TYPE_U8 TYPE_S16HL TYPE_U16HL TYPE_S16LH TYPE_U16LH TYPE_ULAW TYPE_AU2 TYPE_EOF
ULONGSIZE NSKIPSIZE XBITESIZE FNSIZE ENERGYSIZE BITSHIFTSIZE LPCQSIZE TYPESIZE CHANSIZE
LPCQUANT NWRAP V2LPCQOFFSET NBITPERLONG BUFSIZ MASKTABSIZE
MIN_SUPPORTED_VERSION MAX_SUPPORTED_VERSION MAX_VERSION FORMAT_VERSION
DEFAULT_BLOCK_SIZE DEFAULT_V0NMEAN DEFAULT_V2NMEAN DEFAULT_MAXNLPC DEFAULT_NCHAN DEFAULT_NSKIP
POSITIVE_ULAW_ZERO NEGATIVE_ULAW_ZERO MAX_LPC_ORDER
""".split()


class Env(dict):
    pass


def ev(node, env):
    """Evaluate a constant expression over already-known names."""
    if isinstance(node, ast.Constant):
        if isinstance(node.value, (int, bytes, str, float)) and not isinstance(node.value, bool):
            return node.value
        raise Untranslatable("constant %r" % (node.value,))
    if isinstance(node, ast.Name):
        if node.id in env:
            return env[node.id]
        raise Untranslatable("unknown name %s" % node.id)
    if isinstance(node, ast.UnaryOp) and isinstance(node.op, ast.USub):
        v = ev(node.operand, env)
        if isinstance(v, int):
            return -v
        raise Untranslatable("unary minus on %r" % (v,))
    if isinstance(node, ast.BinOp):
        a, b = ev(node.left, env), ev(node.right, env)
        if not (isinstance(a, int) and isinstance(b, int)):
            raise Untranslatable("binop on non-int")
        ops = {ast.LShift: lambda x, y: x << y, ast.Add: lambda x, y: x + y, ast.Sub: lambda x, y: x - y,
               ast.Mult: lambda x, y: x * y, ast.BitOr: lambda x, y: x | y, ast.RShift: lambda x, y: x >> y}
        for k, f in ops.items():
            if isinstance(node.op, k):
                return f(a, b)
        raise Untranslatable("operator %s" % type(node.op).__name__)
    if isinstance(node, ast.Tuple):
        return tuple(ev(e, env) for e in node.elts)
    raise Untranslatable("expression %s" % ast.dump(node)[:80])


def int_table(node):
    """nested list literal of ints -> nested python list"""
    if isinstance(node, ast.List):
        return [int_table(e) for e in node.elts]
    if isinstance(node, ast.Constant) and isinstance(node.value, int) and not isinstance(node.value, bool):
        return node.value
    if isinstance(node, ast.UnaryOp) and isinstance(node.op, ast.USub):
        v = int_table(node.operand)
        if isinstance(v, int):
            return -v
    raise Untranslatable("table entry %s" % ast.dump(node)[:60])


def is_np_array(node):
    return (isinstance(node, ast.Call) and isinstance(node.func, ast.Attribute) and node.func.attr == "array"
            and isinstance(node.func.value, ast.Name) and node.func.value.id == "np")


def module_consts(tree):
    env, tables, dtypes = Env(), {}, {}
    for st in tree.body:
        if not isinstance(st, ast.Assign):
            continue
        if is_np_array(st.value):
            if len(st.targets) != 1 or not isinstance(st.targets[0], ast.Name) or not st.value.args:
                raise Untranslatable("table assignment shape")
            name = st.targets[0].id
            tables[name] = int_table(st.value.args[0])
            for kw in st.value.keywords:
                if kw.arg == "dtype" and isinstance(kw.value, ast.Attribute):
                    dtypes[name] = kw.value.attr
            continue
        try:
            val = ev(st.value, env)
        except Untranslatable:
            continue  # not a constant (none at module level today); names stay undefined
        for tgt in st.targets:
            if isinstance(tgt, ast.Name):
                env[tgt.id] = val
            elif isinstance(tgt, ast.Tuple) and isinstance(val, tuple) and len(tgt.elts) == len(val):
                for t, v in zip(tgt.elts, val):
                    if not isinstance(t, ast.Name):
                        raise Untranslatable("tuple target")
                    env[t.id] = v
            else:
                raise Untranslatable("assignment target %s" % ast.dump(tgt)[:60])
    return env, tables, dtypes


def find_func(tree, name):
    for st in tree.body:
        if isinstance(st, ast.FunctionDef) and st.name == name:
            return st
    raise Untranslatable("function %s not found" % name)


def name_set(node, env):
    """`{A, B, C}` of module constants -> sorted list of ints"""
    if not isinstance(node, ast.Set):
        raise Untranslatable("expected a set display")
    return sorted(ev(e, env) for e in node.elts)


def body_facts(tree, env):
    f = find_func(tree, "copy_shortened_samples")
    facts = {}
    for node in ast.walk(f):
        # if ftype >= 9: raise error
        if isinstance(node, ast.If) and isinstance(node.test, ast.Compare) and isinstance(node.test.left, ast.Name):
            t = node.test
            if (t.left.id == "ftype" and len(t.ops) == 1 and isinstance(t.ops[0], ast.GtE)
                    and any(isinstance(b, ast.Raise) for b in node.body)):
                facts["FTYPE_LIMIT"] = ev(t.comparators[0], env)
            # mean chain: if ftype in {...}: mean = c / elif ftype == X: mean = c / elif ftype in {...}
            if (t.left.id == "ftype" and len(node.body) == 1 and isinstance(node.body[0], ast.Assign)
                    and isinstance(node.body[0].targets[0], ast.Name) and node.body[0].targets[0].id == "mean"
                    and "MEAN_INIT" not in facts):
                table = []
                cur = node
                while True:
                    tt = cur.test
                    if not (isinstance(tt, ast.Compare) and isinstance(tt.left, ast.Name) and tt.left.id == "ftype"
                            and len(tt.ops) == 1):
                        raise Untranslatable("mean chain test")
                    if isinstance(tt.ops[0], ast.In):
                        types = name_set(tt.comparators[0], env)
                    elif isinstance(tt.ops[0], ast.Eq):
                        types = [ev(tt.comparators[0], env)]
                    else:
                        raise Untranslatable("mean chain operator")
                    a = cur.body[0]
                    if not (len(cur.body) == 1 and isinstance(a, ast.Assign) and a.targets[0].id == "mean"):
                        raise Untranslatable("mean chain body")
                    val = ev(a.value, env)
                    table += [(ty, val) for ty in types]
                    if len(cur.orelse) == 1 and isinstance(cur.orelse[0], ast.If):
                        cur = cur.orelse[0]
                        continue
                    if not (len(cur.orelse) == 1 and isinstance(cur.orelse[0], ast.Raise)):
                        raise Untranslatable("mean chain must end in raise")
                    break
                facts["MEAN_INIT"] = sorted(table)
            if (t.left.id == "cmd" and len(t.ops) == 1 and isinstance(t.ops[0], ast.In)
                    and isinstance(t.comparators[0], ast.Set)):
                facts["BLOCK_CMDS"] = name_set(t.comparators[0], env)
        # convert = data.dtype.itemsize > 1 and ftype in {TYPE_AU1, TYPE_AU2}
        if (isinstance(node, ast.Assign) and isinstance(node.targets[0], ast.Name) and node.targets[0].id == "convert"
                and isinstance(node.value, ast.BoolOp)):
            for v in node.value.values:
                if isinstance(v, ast.Compare) and isinstance(v.ops[0], ast.In):
                    facts["CONVERT_TYPES"] = name_set(v.comparators[0], env)
        # nwrap = max(maxnlpc, NWRAP)
    g = find_func(tree, "copy_samples")
    for node in ast.walk(g):
        if (isinstance(node, ast.Assign) and isinstance(node.targets[0], ast.Name)
                and node.targets[0].id == "buf_size"):
            facts["COPY_READ_SIZE"] = ev(node.value, env)
    for k in ("FTYPE_LIMIT", "MEAN_INIT", "BLOCK_CMDS", "CONVERT_TYPES", "COPY_READ_SIZE"):
        if k not in facts:
            raise Untranslatable("could not find %s in the decoder body" % k)
    return facts


def lean_int(v):
    return "(%d)" % v if v < 0 else "%d" % v


def chunks(xs, n=16):
    return [xs[i:i + n] for i in range(0, len(xs), n)]


def arr(vals, indent="  "):
    lines = [", ".join(lean_int(v) for v in c) for c in chunks(vals)]
    return "#[" + (",\n" + indent).join(lines) + "]"


def extract(repo):
    tree = ast.parse(open(repo + "/" + SRC).read())
    env, tables, dtypes = module_consts(tree)
    facts = body_facts(tree, env)
    return env, tables, dtypes, facts


def generate(repo):
    env, tables, dtypes, facts = extract(repo)
    out = ["/- GENERATED by harness/translate/shorten.py from %s -- do not edit; regenerated on every check. -/" % SRC,
           "namespace PdsVerif.Gen.Shorten", ""]
    for n in REQUIRED_INTS:
        if n not in env or not isinstance(env[n], int):
            raise Untranslatable("constant %s missing" % n)
    # all integer constants of the module, sorted by name (Nat when non-negative)
    for n in sorted(env):
        v = env[n]
        if isinstance(v, int):
            out.append("def %s : %s := %s" % (n, "Nat" if v >= 0 else "Int", lean_int(v)))
    if not isinstance(env.get("MAGIC"), bytes):
        raise Untranslatable("MAGIC")
    out.append("def MAGIC : List Nat := [%s]" % ", ".join(str(b) for b in env["MAGIC"]))
    out.append("")
    out.append("/-- `if ftype >= %d: raise error` -/" % facts["FTYPE_LIMIT"])
    out.append("def FTYPE_LIMIT : Nat := %d" % facts["FTYPE_LIMIT"])
    out.append("/-- initial running-mean value per sample type (the `if ftype in {...}: mean = ...` chain) -/")
    out.append("def MEAN_INIT : List (Nat × Int) := [%s]" % ", ".join("(%d, %d)" % p for p in facts["MEAN_INIT"]))
    out.append("/-- commands that decode one block of one channel -/")
    out.append("def BLOCK_CMDS : List Nat := [%s]" % ", ".join(map(str, facts["BLOCK_CMDS"])))
    out.append("/-- sample types whose output is mapped through `ULAW2PCM` when the result is wider than a byte -/")
    out.append("def CONVERT_TYPES : List Nat := [%s]" % ", ".join(map(str, facts["CONVERT_TYPES"])))
    out.append("/-- size of the first `file_.read` in `copy_samples` (the shorten stream starts inside it) -/")
    out.append("def COPY_READ_SIZE : Nat := %d" % facts["COPY_READ_SIZE"])
    out.append("")
    for name in ("ULAW2PCM", "ALAW2PCM"):
        t = tables.get(name)
        if not (isinstance(t, list) and len(t) == 256 and all(isinstance(v, int) for v in t)):
            raise Untranslatable("table %s" % name)
        out.append("/-- `%s` (dtype %s) -/\ndef %s : Array Int :=\n  %s\n" % (name, dtypes.get(name), name, arr(t)))
    t = tables.get("ULAW_OUTWARD")
    if not (isinstance(t, list) and t and all(isinstance(r, list) and len(r) == 256 and
                                               all(isinstance(v, int) and v >= 0 for v in r) for r in t)):
        raise Untranslatable("table ULAW_OUTWARD")
    out.append("/-- `ULAW_OUTWARD` (dtype %s): %d rows (bit shift) x 256 -/" % (dtypes.get("ULAW_OUTWARD"), len(t)))
    out.append("def ULAW_OUTWARD : Array (Array Nat) := #[")
    out.append(",\n".join("  " + arr(r, "    ") for r in t))
    out.append("]")
    out.append("")
    out.append("end PdsVerif.Gen.Shorten\n")
    meta = dict(consts={k: v for k, v in env.items() if isinstance(v, int)}, facts=facts,
                rows=len(t))
    return {"ShortenConsts.lean": "\n".join(out)}, meta

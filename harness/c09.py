"""C09 - command-line tools store exactly what the library pipeline computes.

Both entry points (`compute_feats_from_kaldi_tables`, `signals_to_torch_feat_dir`) are run in-process on
real files in a temporary directory under /tmp (removed afterwards).  Three things are compared:

* correspondence: the Lean model (`Model/Cli.lean`) answers, for the same abstract description of the run,
  which utterances are stored (order, ids, rows, seed) with which *symbolic* pipeline term, and the outcome
  (exit code / exception class).  The term is interpreted here with the stage objects of the case
  (tracer stages make order and application count observable exactly) and compared with what was stored.
* property oracle (independent of the model): read -> pick -> pre -> compute_full -> post computed with the
  library directly, for tracer and for library configurations (fbank / gabor STFT, short integration,
  preemphasis, dither, deltas, stack, unit), against what the tools stored; ids; dtype; manifest.
* run-level clauses with no Lean counterpart: same configuration as inline JSON / JSON file / YAML file, and a
  fixed --seed run twice, give identical stored features.
"""
import contextlib
import io
import json
import logging
import math
import os
import re
import shutil
import sys
import tempfile
import wave
from fractions import Fraction

import numpy as np

from . import common

PROP = "C09"
MODULES = ["PdsVerif.Props.CliTie", "PdsVerif.Props.C09"]
MODEL_MODULES = ["PdsVerif.Model.Cli", "PdsVerif.Model.Stft"]
REQUIRED = ["PdsVerif.C09." + n for n in """stftRows_eq_full kaldi_outputs kaldi_ids kaldi_pipeline kaldi_exit_code
    kaldi_unreadable_aborts torch_map torch_manifest_filter torch_outputs torch_listed_untouched
    torch_error_aborts torch_channel_rules torch_pipeline no_computer_is_column
    seed_is_function_of_utterance seed_same_across_runs""".split()] + ["PdsVerif.CliTie." + n for n in ["torchItem_seed", "chan_unspecified_eq", "chan_specified_eq", "picks_channel_eq", "posts_applied_eq", "nonneg_ok_iff", "nonneg_ok_zero", "rules_current_eq", "file_name_rule", "file_name_injective"]]

def translate(repo):
    """decision logic of signals-to-torch-feat-dir (command_line.py) -> Generated/CliConsts.lean (theorems: Props/CliTie.lean)"""
    from .translate import cliconsts
    return cliconsts.generate(repo)

RULE = (
    "a case is one run of one tool: 0-8 utterances (mono / 2-3 channels / 1-D; lengths at 1, L//2, L//2+1, L, 2L+1 "
    "and random, so some yield zero frames; wrong sampling rate; below / exactly at / above --min-duration; "
    "--channel in -2..3 incl. out of range; unreadable entry; blank / malformed / duplicate map lines; manifest "
    "subsets incl. foreign ids) x options (0-3 pre- and post-processors, possibly repeated; computer or none; "
    "--seed; file prefix/suffix; each configuration independently as inline JSON, JSON file or YAML file, a "
    "single processor also as a bare mapping). Tracer family: DC-bank STFT with integer window, affine "
    "pre/post tracers (kaldi tool), dyadic Preemphasize / seeded Dither and affine + seed-reading post tracers "
    "(torch tool). Library family: fbank / gabor STFT and SI computers with preemphasize, dither, deltas, stack, "
    "unit. Distinct by the whole case description; every case with at least one utterance is non-trivial."
)
TRUSTED = [
    "stage semantics are outside the model: a stored matrix is a symbolic term; its interpretation by the harness uses the library's own stage objects (and the tracer stages defined in harness/c09.py, harness/tracers.py)",
    "pydrobert-kaldi table I/O (wave reader: (channels, samples) float32 + rate + duration; BaseMatrix is single precision), soundfile / numpy / torch file codecs, torch.save / torch.load, argparse, the JSON / YAML parsers",
    "torch.utils.data.DataLoader(num_workers=0) yields dataset items in index order, one at a time (parallel workers: C10)",
    "the number of rows compute_full yields is taken from the STFT framing model (Model/Stft.lean, proved in C01/C02)",
]
ASSUMPTIONS = [
    "kaldi theorems assume --channel >= -1, at least one channel per wave entry and loadable entries (otherwise: kaldi_unreadable_aborts; an IndexError for --channel < -1 is modelled and exercised but lies outside the property)",
    "torch theorems: an unreadable utterance or one breaking the channel rules ends the run with an exception (torch_error_aborts); 'every utterance appears' is stated for runs whose remaining utterances are readable and satisfy the channel rules",
    "stages are total and pre-processors preserve the signal length (true of Dither, Preemphasize and the tracers); an exception inside a stage is not modelled",
    "pre-run failures (unknown alias, NotImplementedError for pre-processor classes the torch tool cannot convert, unparsable configuration) are outside the model",
    "value equality 'to float32 precision' is checked by runs (1e-5 of the matrix scale), not proved; config_syntax_irrelevant and same-seed determinism are checked by runs only (parsers and RNGs are outside the model)",
    "with --channel -1 the kaldi tool defaults a multi-channel signal to channel 0 (modelled, exercised); the property only speaks of mono signals or an explicit --channel, so those utterances are outside the oracle",
]
LEVEL_TEXT = (
    "Proved for any number of utterances and any options: the kaldi tool's loop stores exactly the utterances not "
    "excluded by --min-duration / rate / channel range, in input order, each under its own id, with the term "
    "cast32(post_n..post_1(full(pre_m..pre_1(pick ch)))) - every configured stage exactly once in list order, "
    "post-processors skipped exactly when there are zero frames - and returns 0 iff something was stored; the "
    "torch tool's map parsing, manifest filtering (= filter of the map, order kept), channel rules, raw-samples-"
    "as-column, per-utterance seed = --seed + position in the map (independent of the manifest), error-aborts-"
    "after-a-correct-prefix and never-touch-listed-utterances. Stages are symbolic; values are tied by in-process "
    "runs of the real entry points with tracer stages (exact) and library stages (float32 tolerance)."
)
LEVEL_NOTE = (
    "Trusted: symbolic stages (their semantics comes from the library objects at run time), Kaldi/soundfile/numpy/"
    "torch codecs, argparse and JSON/YAML parsers, DataLoader order with num_workers=0. Config-syntax independence "
    "and same-seed determinism are run-checked only. Torch tool modelled with the repairs of branch "
    "fix/C09-torch-short-utts (a zero-frame utterance is stored untouched instead of dying in a post-processor that "
    "rejects empty input; the PyTorch STFT pads a signal shorter than a frame like numpy.pad)."
)
TECHNIQUE = "Lean 4 proof: loop model = declarative filterMap spec over symbolic pipeline terms; in-process entry-point correspondence with tracer stages"

# ---------------------------------------------------------------------------------------------
# stage table: tag -> configuration handed to the tools (JSON-able).  The model only sees tags.

STAGES = {
    # kaldi tool, tracer family: x -> a*x + b   (non-commuting affine maps)
    1: {"name": "c09pre", "a": 2, "b": 1},
    2: {"name": "c09pre", "a": 3, "b": 2},
    3: {"name": "c09pre", "a": 2, "b": 0},
    4: {"name": "c09pre", "a": 1, "b": 3},
    # torch tool, tracer family: only Dither / Preemphasize can be converted by the tool
    11: {"name": "preemphasize", "coeff": 0.5},
    12: {"alias": "preemph", "coeff": 0.25},
    13: {"name": "preemphasis", "coeff": -0.5},
    14: {"name": "dither", "coeff": 0.5},
    15: {"name": "dithering", "coeff": 1.0},
    # library family
    21: "preemphasize",
    22: {"name": "preemphasize", "coeff": 0.9},
    23: {"name": "dither", "coeff": 1.0},
    24: "dither",
    # post-processors, tracer: rows -> mul*rows + add ; 59 adds torch.initial_seed()
    51: {"name": "c09post", "mul": 3, "add": 1},
    52: {"name": "c09post", "mul": 2, "add": 5},
    53: {"name": "c09post", "mul": 3, "add": 0},
    54: {"name": "c09post", "mul": 1, "add": 7},
    59: {"name": "c09post", "mul": 1, "add": 0, "seed": True},
    # post-processors, library
    61: {"name": "deltas", "num_deltas": 2},
    62: {"name": "stack", "num_vectors": 3},
    63: "unit",
    64: {"name": "deltas", "num_deltas": 1, "context_window": 3},
    65: {"name": "standardize", "norm_var": False},
}
RANDOM_STAGES = {14, 15, 23, 24}
SEED_STAGES = {59}

_T = {}


def tracers():
    """Tracer components registered under fresh aliases (public API: subclassing + `aliases`)."""
    if _T:
        return _T
    from pydrobert.speech.post import PostProcessor
    from pydrobert.speech.pre import PreProcessor

    from .tracers import DCBank, IntWindow

    class C09Bank(DCBank):
        aliases = {"c09bank"}

    class C09Window(IntWindow):
        aliases = {"c09win"}

    class C09Pre(PreProcessor):
        aliases = {"c09pre"}

        def __init__(self, a=2, b=1):
            self.a, self.b = a, b

        def apply(self, signal, in_place=False):
            return np.asarray(signal, dtype=np.float64) * self.a + self.b

    class C09Post(PostProcessor):
        aliases = {"c09post"}

        def __init__(self, mul=3, add=0, seed=False):
            self.mul, self.add, self.seed = mul, add, seed

        def apply(self, features, axis=-1, in_place=False):
            out = np.asarray(features, dtype=np.float64) * self.mul + self.add
            if self.seed:
                import torch

                out = out + float(torch.initial_seed())
            return out

    _T.update(bank=C09Bank, window=C09Window, pre=C09Pre, post=C09Post)
    return _T


def tracer_computer_cfg(L, S, centered, kaldi_shift, rate, num, window):
    # (L + 0.5) samples worth of milliseconds: int(0.001 * ms * rate) == L whatever the round-off
    return {
        "name": "stft",
        "bank": {"name": "c09bank", "rate": float(rate), "num": num},
        "frame_length_ms": (L + 0.5) * 1000.0 / rate,
        "frame_shift_ms": (S + 0.5) * 1000.0 / rate,
        "frame_style": "centered" if centered else "causal",
        "kaldi_shift": bool(kaldi_shift),
        "window_function": {"name": "c09win", "mode": window},
        "use_log": False,
        "use_power": False,
        "pad_to_nearest_power_of_two": False,
    }


def library_computer_cfg(kind, rate, r):
    bank_f = {"name": "fbank", "num_filts": r.choice([4, 6]), "low_hz": 20, "high_hz": rate // 2,
              "sampling_rate": rate}
    bank_g = {"name": "gabor", "scaling_function": "mel", "num_filts": r.choice([3, 5]), "sampling_rate": rate}
    if kind == "fbank":
        return {"name": "stft", "bank": bank_f, "frame_length_ms": 25, "frame_shift_ms": 10,
                "frame_style": "centered", "window_function": r.choice(["hanning", "hamming"]),
                "use_log": True, "use_power": r.random() < 0.5, "kaldi_shift": r.random() < 0.5,
                "include_energy": r.random() < 0.3}
    if kind == "gabor":
        # frame lengths of both parities (ms chosen so that int(0.001 * ms * rate) is odd / even at 8 kHz:
        # 20 -> 160, 20.125 -> 161, 25.125 -> 201), padded and unpadded DFT: the torch tool uses the PyTorch port
        return {"name": "stft", "bank": bank_g, "frame_length_ms": r.choice([20, 20.125, 25.125]), "frame_shift_ms": 10,
                "frame_style": r.choice(["centered", "causal"]), "use_log": True,
                "pad_to_nearest_power_of_two": r.random() < 0.5}
    return {"name": "si", "bank": bank_g, "frame_shift_ms": 10, "use_log": True,
            "include_energy": r.random() < 0.3}


# ---------------------------------------------------------------------------------------------
# small utilities


@contextlib.contextmanager
def quiet():
    """The tools log / print to stderr (Python and Kaldi side): silence fd 2 while they run."""
    sys.stderr.flush()
    devnull = os.open(os.devnull, os.O_WRONLY)
    saved = os.dup(2)
    os.dup2(devnull, 2)
    try:
        yield
    finally:
        try:
            sys.stderr.flush()
        except Exception:
            pass
        os.dup2(saved, 2)
        os.close(saved)
        os.close(devnull)
        # compute_feats_from_kaldi_tables adds a StreamHandler per call
        logging.getLogger(sys.argv[0]).handlers[:] = []


def uname(i):
    # deliberately NOT fixed width: u1 is a prefix/substring of u12, so id handling by substring or prefix
    # (manifest filtering, file naming) is exposed
    # every fourth id contains a dot ("s.6", "s.10": the same stem): an id is an opaque string, not a file name with an
    # extension to be split off
    return "s.%d" % i if i % 4 == 2 else "u%d" % i


def unum(name):
    """inverse of `uname`; ValueError for anything else"""
    if name.startswith("s."):
        i = int(name[2:])
    elif name.startswith("u"):
        i = int(name[1:])
    else:
        raise ValueError(name)
    if uname(i) != name:
        raise ValueError(name)
    return i


def signal_for(family, uid, chans, samples):
    """(chans, samples) int-valued float64 test signal, a function of the utterance only."""
    if family == "tracer":
        i = np.arange(samples)[None, :]
        c = np.arange(max(chans, 1))[:, None]
        return (1 + (3 * i + 5 * c + 7 * uid + (i * i) % 3) % 7).astype(np.float64)
    rs = np.random.RandomState(uid * 7919 + samples * 31 + chans)
    x = rs.randint(-(2 ** 13), 2 ** 13, size=(max(chans, 1), samples)).astype(np.float64)
    if uid % 5 == 3:
        # every fifth utterance starts with digital silence (70 %): its first frames are stored at the log floor
        x[:, : (7 * samples) // 10] = 0.0
    return x


def write_wav(path, data, rate):
    wv = wave.open(path, "wb")
    wv.setnchannels(data.shape[0])
    wv.setsampwidth(2)
    wv.setframerate(int(rate))
    wv.writeframes(np.ascontiguousarray(data.T).astype("<i2").tobytes())
    wv.close()


def config_arg(obj, syntax, workdir, name):
    """The same container hierarchy as inline JSON, a JSON file or a YAML file."""
    if syntax == "inline":
        return json.dumps(obj)
    if syntax == "json":
        p = os.path.join(workdir, name + ".json")
        with open(p, "w") as f:
            json.dump(obj, f, indent=1)
        return p
    from ruamel.yaml import YAML

    y = YAML(typ="safe")
    y.default_flow_style = False
    p = os.path.join(workdir, name + ".yaml")
    with open(p, "w") as f:
        y.dump(obj, f)
    return p


def stage_list_arg(tags, as_mapping):
    cfgs = [STAGES[t] for t in tags]
    if as_mapping and len(cfgs) == 1 and isinstance(cfgs[0], dict):
        return cfgs[0]  # "--preprocess" also accepts one mapping instead of a list
    return cfgs


def build_objects(case):
    """Library objects of the case's configuration, built with the library's own factory."""
    tracers()
    from pydrobert.speech.alias import alias_factory_subclass_from_arg as mk
    from pydrobert.speech.compute import FrameComputer
    from pydrobert.speech.post import PostProcessor
    from pydrobert.speech.pre import PreProcessor

    comp = None if case.get("computer") is None else mk(FrameComputer, case["computer"])
    pres = {t: mk(PreProcessor, STAGES[t]) for t in set(case["pres"])}
    posts = {t: mk(PostProcessor, STAGES[t]) for t in set(case["posts"])}
    return comp, pres, posts


def frames_arg(case, comp):
    """`L,S,centered,kaldi_shift` of an STFT computer for the driver, or None (no row model)."""
    from pydrobert.speech.compute import STFTFrameComputer

    if not isinstance(comp, STFTFrameComputer):
        return None
    L, S = comp.frame_length, comp.frame_shift
    if not (1 <= S <= L):
        return None
    cfg = case["computer"]
    style = cfg.get("frame_style")
    if style is None:
        return None
    return "%d,%d,%d,%d" % (L, S, int(style == "centered"), int(bool(cfg.get("kaldi_shift", False))))


def nats(l):
    return ",".join(str(x) for x in l) if l else "-"


# ---------------------------------------------------------------------------------------------
# terms of the model: parsing and interpretation

_TOK = re.compile(r"([a-zA-Z])(\d*)\(")


def parse_term(s):
    m = re.fullmatch(r"s(\d+)", s)
    if m:
        return ("s", int(m.group(1)))
    m = _TOK.match(s)
    if not m or not s.endswith(")"):
        raise ValueError("bad term %r" % s)
    head, num = m.group(1), m.group(2)
    inner = parse_term(s[m.end():-1])
    return (head, int(num) if num else None, inner)


def eval_term(t, env):
    if t[0] == "s":
        return env["sig"](t[1])
    head, k, inner = t
    x = eval_term(inner, env)
    if head == "k":
        return x[k]
    if head == "p":
        return env["pre"](k, x)
    if head == "F":
        return env["full"](x)
    if head == "U":
        return x[:, None]
    if head == "P":
        return env["post"](k, x)
    if head == "c":
        return x.astype(np.float32)
    raise ValueError(head)


def numpy_env(sigs, comp, pres, posts):
    return dict(
        sig=lambda i: sigs[i].copy(),
        pre=lambda k, x: pres[k].apply(np.array(x, dtype=np.float64)),
        full=lambda x: comp.compute_full(x),
        post=lambda k, x: posts[k].apply(np.array(x, dtype=np.float64)),
    )


def torch_env(sigs, comp, pres, posts):
    import torch
    from pydrobert.speech.pre import Dither
    from pydrobert.speech.torch import PyTorchDither, PyTorchPreemphasize

    mods = {k: (PyTorchDither.from_dither(p) if isinstance(p, Dither) else PyTorchPreemphasize.from_preemphasize(p))
            for k, p in pres.items()}

    def pre(k, x):
        with torch.no_grad():
            return mods[k](torch.from_numpy(np.array(x, dtype=np.float64))).numpy()

    return dict(
        sig=lambda i: sigs[i].copy(),
        pre=pre,
        full=lambda x: comp.compute_full(np.array(x, dtype=np.float64)),
        post=lambda k, x: posts[k].apply(np.array(x, dtype=np.float64)),
    )


def mat_close(a, b, rel):
    """`a` (stored) vs `b` (expected): same shape, every entry within rel * scale of the matrix."""
    a = np.asarray(a, dtype=np.float64)
    b = np.asarray(b, dtype=np.float64)
    if a.shape != b.shape:
        return False
    if a.size == 0:
        return True
    if not (np.all(np.isfinite(a)) and np.all(np.isfinite(b))):
        return bool(np.array_equal(a, b))
    scale = max(1.0, float(np.max(np.abs(b))))
    return bool(np.max(np.abs(a - b)) <= rel * scale)


def tol(case):
    # tracer values are small integers (exact in float32); library values: float32 storage of a float64
    # pipeline (torch tool: float32 window / complex64 filters inside the PyTorch STFT)
    if case["family"] == "tracer":
        return 1e-6
    return 1e-5 if case["tool"] == "kaldi" else 1e-4


# ---------------------------------------------------------------------------------------------
# compute-feats-from-kaldi-tables: build, run, model line, oracle


def kaldi_sigs(case):
    return {u[0]: signal_for(case["family"], u[0], u[1], u[2]) for u in case["utts"]}


def run_kaldi(case, root, syntax=None):
    """Real entry point on real wav files + scp/ark tables. Returns outcome, stored [(id, matrix)], durations."""
    from pydrobert.kaldi.io import open as kopen
    from pydrobert.speech import command_line

    tracers()
    wd = tempfile.mkdtemp(dir=root)
    syn = syntax or case["syntax"]
    scp = os.path.join(wd, "wav.scp")
    sigs = kaldi_sigs(case)
    with open(scp, "w") as f:
        for uid, chans, samples, rate, readable in case["utts"]:
            p = os.path.join(wd, uname(uid) + ".wav")
            if readable:
                write_wav(p, sigs[uid], rate)
            f.write("%s %s\n" % (uname(uid), p))
    ark = os.path.join(wd, "feats.ark")
    args = ["scp:" + scp, "ark:" + ark, config_arg(case["computer"], syn[0], wd, "computer")]
    if case["min_dur"] is not None:
        args.append("--min-duration=" + case["min_dur"])
    if case["channel"] != -1 or case.get("explicit_channel"):
        args.append("--channel=%d" % case["channel"])
    if case["pres"] or case.get("explicit_empty"):
        args.append("--preprocess=" + config_arg(stage_list_arg(case["pres"], case.get("as_mapping")), syn[1], wd, "pre"))
    if case["posts"] or case.get("explicit_empty"):
        args.append("--postprocess=" + config_arg(stage_list_arg(case["posts"], case.get("as_mapping")), syn[2], wd, "post"))
    if case["seed"] is not None:
        args.append("--seed=%d" % case["seed"])
    durs = None
    with quiet():
        try:
            with kopen("scp:" + scp, "wm", value_style="bsd") as rd:
                durs = [float(v[2]) for _, v in rd.items()]
        except Exception:
            durs = None
        try:
            rc = command_line.compute_feats_from_kaldi_tables(args)
            outcome = "exit=%s" % rc
        except Exception as e:  # an exception leaving the entry point
            outcome = "raise=" + type(e).__name__
            del e
        import gc

        gc.collect()
        stored = []
        try:
            with kopen("ark:" + ark, "bm") as rd:
                for k, v in rd.items():
                    stored.append((unum(k), np.array(v)))
        except Exception as e:
            stored = "unreadable output table: %s" % type(e).__name__
    if durs is None:
        durs = [float(np.float32(u[2]) / np.float32(u[3])) for u in case["utts"]]
    shutil.rmtree(wd, ignore_errors=True)
    return dict(outcome=outcome, stored=stored, durs=durs)


def kaldi_line(case, durs, comp):
    fr = frames_arg(case, comp)
    if fr is None:
        return None
    md = float(case["min_dur"]) if case["min_dur"] is not None else 0.0
    fracs = [Fraction(md)] + [Fraction(d) for d in durs]
    if any(f < 0 for f in fracs):
        return None
    D = 1
    for f in fracs:
        D = D * f.denominator // math.gcd(D, f.denominator)
    t = [int(f * D) for f in fracs]
    utts = ";".join("%d:%d:%d:%d:%d:%d" % (u[0], u[1], u[2], u[3], t[i + 1], int(u[4]))
                    for i, u in enumerate(case["utts"])) or "-"
    return "kaldi %d %d %d %s %s %s %s" % (t[0], case["channel"], case["rate"], fr, nats(case["pres"]),
                                           nats(case["posts"]), utts)


def parse_model_out(out, with_seed):
    parts = out.split(" ")
    items = []
    if parts[1] != "-":
        for it in parts[1].split(";"):
            f = it.split(":")
            if with_seed:
                items.append(dict(id=int(f[0]), rows=int(f[1]), seed=int(f[2]), term=f[3]))
            else:
                items.append(dict(id=int(f[0]), rows=int(f[1]), term=f[2]))
    res = dict(outcome=parts[0], items=items)
    if with_seed:
        res["manifest"] = [] if parts[2] == "-" else [int(x) for x in parts[2].split(",")]
    return res


def canon_outcome(model_outcome):
    """the implementation side cannot name the utterance of a raise: compare the class only"""
    return model_outcome.split("@")[0]


def correspond_kaldi(ctx, case, impl, mout, objs):
    comp, pres, posts = objs
    if mout == "bad-op":
        ctx.mismatch(case, mout, impl["outcome"], "driver rejected the run line")
        return
    m = parse_model_out(mout, False)
    ctx.count("kaldi_outcome:" + canon_outcome(m["outcome"]))
    if isinstance(impl["stored"], str):
        ctx.mismatch(case, m["outcome"], impl["stored"], "output table")
        return
    brief = [impl["outcome"], [(i, a.shape[0]) for i, a in impl["stored"]]]
    has_random = bool(RANDOM_STAGES & set(case["pres"]))
    comparable = not (has_random and case["seed"] is None)
    wants = None
    if comparable:
        if case["seed"] is not None:
            np.random.seed(case["seed"])
        env = numpy_env(kaldi_sigs(case), comp, pres, posts)
        try:
            wants = [eval_term(parse_term(s["term"]), env) for s in m["items"]]
        except Exception as e:
            # a stage itself rejects its input (e.g. Standardize on a single frame): not modelled
            ctx.count("stage_raises:" + type(e).__name__)
            return
    if canon_outcome(m["outcome"]) != impl["outcome"]:
        ctx.mismatch(case, m["outcome"], brief, "outcome (exit code / exception class)")
        return
    if [s["id"] for s in m["items"]] != [i for i, _ in impl["stored"]]:
        ctx.mismatch(case, [s["id"] for s in m["items"]], brief, "stored ids / order")
        return
    if wants is None:
        return
    for s, want, (uid, got) in zip(m["items"], wants, impl["stored"]):
        # `rows` of the model = rows of compute_full (what the guard tests); a Kaldi table stores any empty
        # matrix as (0, 0): zero rows is the observable
        ok = (want.shape[0] == 0 and got.shape[0] == 0) or (
            got.dtype == want.dtype and mat_close(got, want, tol(case)))
        if s["rows"] != comp.compute_full(np.zeros(_samples_of(case, uid))).shape[0]:
            ok = False  # the model's row count is that of compute_full on a signal of this length
        if not ok:
            ctx.mismatch(case, dict(id=uid, rows=s["rows"], term=s["term"], shape=list(want.shape),
                                    head=np.asarray(want).ravel()[:4].tolist()),
                         dict(id=uid, dtype=str(got.dtype), shape=list(got.shape), head=got.ravel()[:4].tolist()),
                         "stored matrix vs the model's term interpreted with the case's stages")
            return


def _samples_of(case, uid):
    for u in case["utts"]:
        if u[0] == uid:
            return u[2]
    raise KeyError(uid)


def oracle_kaldi(ctx, case, impl, objs):
    """Independent statement of the property for one kaldi-tool run."""
    comp, pres, posts = objs
    utts = case["utts"]
    if case["channel"] < -1 or not all(u[4] for u in utts):
        ctx.count("out_of_scope")
        return
    md = float(case["min_dur"]) if case["min_dur"] is not None else 0.0
    expected = []
    for u, d in zip(utts, impl["durs"]):
        if d < md or float(u[3]) != float(comp.bank.sampling_rate) or case["channel"] >= u[1]:
            continue
        if case["channel"] == -1 and u[1] > 1:
            ctx.count("out_of_scope")  # neither mono nor an explicit --channel
            return
        expected.append(u)
    tags = dict(tool="kaldi", family=case["family"])
    has_random = bool(RANDOM_STAGES & set(case["pres"]))
    comparable = not (has_random and case["seed"] is None)
    wants = None
    if comparable:
        if case["seed"] is not None:
            np.random.seed(case["seed"])  # the tool seeds NumPy once, then works through the table in order
        sigs = kaldi_sigs(case)
        wants = []
        try:
            for u in expected:
                x = sigs[u[0]][max(case["channel"], 0)].astype(np.float64)
                for t in case["pres"]:
                    x = pres[t].apply(x)
                want = comp.compute_full(x)
                if want.shape[0]:
                    for t in case["posts"]:
                        want = posts[t].apply(want)
                wants.append(want)
        except Exception as e:
            # the library pipeline itself is undefined on this utterance (a stage rejects its input)
            ctx.count("out_of_scope")
            ctx.count("library_pipeline_raises:" + type(e).__name__)
            return
    if not impl["outcome"].startswith("exit=") or isinstance(impl["stored"], str):
        ctx.violation(case, "the run completes", [impl["outcome"], str(impl["stored"])[:200]],
                      "compute-feats-from-kaldi-tables processes every utterance (no exception)",
                      tags=dict(tags, clause="raises", exc=impl["outcome"]))
        return
    got_ids = [i for i, _ in impl["stored"]]
    if got_ids != [u[0] for u in expected]:
        ctx.violation(case, [u[0] for u in expected], got_ids,
                      "every utterance not excluded by --min-duration / rate / channel appears under its own id, in order, and no other",
                      tags=dict(tags, clause="ids"))
        return
    if bool(expected) != (impl["outcome"] == "exit=0"):
        ctx.violation(case, "exit 0 iff something was stored", impl["outcome"], "exit code",
                      tags=dict(tags, clause="exit_code"))
    if wants is None:
        ctx.count("values_not_comparable(no seed)")
        return
    for want, (uid, got) in zip(wants, impl["stored"]):
        if want.shape[0] == 0:
            ok = got.shape[0] == 0
        else:
            ok = mat_close(got, want, tol(case))
        if not ok:
            ctx.violation(case, dict(id=uid, shape=list(want.shape), head=np.asarray(want).ravel()[:4].tolist()),
                          dict(id=uid, shape=list(got.shape), head=got.ravel()[:4].tolist()),
                          "stored matrix == post_n(..post_1(compute_full(pre_m(..pre_1(signal[channel]))))) to float32 precision",
                          tags=dict(tags, clause="values"))
            return


# ---------------------------------------------------------------------------------------------
# signals-to-torch-feat-dir


def torch_entries(case):
    return [l for l in case["lines"] if l[0] == "u"]


def torch_sig(case, l):
    _, uid, ndim, chans, samples, readable, ext = l
    x = signal_for(case["family"], uid, chans, samples)
    return x[0] if ndim == 1 else x


SENTINEL = 123456.0


def run_torch(case, root, syntax=None):
    import torch
    from pydrobert.speech import command_line

    tracers()
    wd = tempfile.mkdtemp(dir=root)
    syn = syntax or case["syntax"]
    raw = os.path.join(wd, "raw dir" if case.get("space") else "raw")
    os.makedirs(raw)
    out = os.path.join(wd, "feats")
    mp = os.path.join(wd, "map.txt")
    with open(mp, "w") as f:
        for l in case["lines"]:
            if l[0] == "b":
                f.write("   \n")
            elif l[0] == "x":
                f.write("lonely\n")
            else:
                _, uid, ndim, chans, samples, readable, ext = l
                p = os.path.join(raw, uname(uid) + "." + ext)
                if readable:
                    x = torch_sig(case, l)
                    if ext == "wav":
                        write_wav(p, x[None, :], 1000)
                    elif ext == "npy":
                        np.save(p, x.astype(np.float32 if uid % 2 else np.float64))
                    else:
                        torch.save(torch.from_numpy(x.astype(np.float32)), p)
                f.write("%s %s\n" % (uname(uid), p))
    args = [mp]
    if case["computer"] is not None:
        args.append(config_arg(case["computer"], syn[0], wd, "computer"))
    args.append(out)
    if case["channel"] != -1 or case.get("explicit_channel"):
        args.append("--channel=%d" % case["channel"])
    if case["pres"] or case.get("explicit_empty"):
        args.append("--preprocess=" + config_arg(stage_list_arg(case["pres"], case.get("as_mapping")), syn[1], wd, "pre"))
    if case["posts"] or case.get("explicit_empty"):
        args.append("--postprocess=" + config_arg(stage_list_arg(case["posts"], case.get("as_mapping")), syn[2], wd, "post"))
    if case["seed"] is not None:
        args.append("--seed=%d" % case["seed"])
    prefix, suffix = case.get("prefix", ""), case.get("suffix", ".pt")
    if prefix:
        args.append("--file-prefix=" + prefix)
    if suffix != ".pt":
        args.append("--file-suffix=" + suffix)
    man = None
    if case["manifest"] is not None:
        man = os.path.join(wd, "manifest.txt")
        os.makedirs(out)
        with open(man, "w") as f:
            for uid in case["manifest"]:
                f.write(uname(uid) + "\n")
                # a listed utterance was completed earlier: its file must not be touched
                torch.save(torch.full((1, 1), SENTINEL), os.path.join(out, prefix + uname(uid) + suffix))
        args.append("--manifest=" + man)
    with quiet():
        try:
            rc = command_line.signals_to_torch_feat_dir(args)
            outcome = "exit=%s" % rc
        except Exception as e:
            m = re.match(r"Utterance (\S+?):", str(e))
            outcome = "raise=%s@%s" % (type(e).__name__, unum(m.group(1)) if m else "?")
            del e
    files = {}
    if os.path.isdir(out):
        for fn in sorted(os.listdir(out)):
            if fn.startswith(prefix) and fn.endswith(suffix):
                key = fn[len(prefix):len(fn) - len(suffix)]
                try:
                    files[unum(key)] = torch.load(os.path.join(out, fn))
                except ValueError:
                    files[fn] = None
            else:
                files[fn] = None
    appended = None
    if man is not None:
        with open(man) as f:
            ls = [x.strip() for x in f]
        appended = [unum(x) for x in ls[len(case["manifest"]):]]
    shutil.rmtree(wd, ignore_errors=True)
    return dict(outcome=outcome, files=files, appended=appended)


def torch_line(case, comp):
    if case["computer"] is None:
        fr = "none"
    else:
        fr = frames_arg(case, comp)
        if fr is None:
            return None
    ls = []
    for l in case["lines"]:
        if l[0] in "bx":
            ls.append(l[0])
        else:
            _, uid, ndim, chans, samples, readable, ext = l
            ls.append("%d:v:%d:%d" % (uid, samples, int(readable)) if ndim == 1 else
                      "%d:m:%d:%d:%d" % (uid, chans, samples, int(readable)))
    man = "none" if case["manifest"] is None else nats(case["manifest"])
    return "torch %d %s %s %s %s %d %s" % (case["channel"], fr, nats(case["pres"]), nats(case["posts"]), man,
                                           case["seed"] or 0, ";".join(ls) or "-")


def is_sentinel(t):
    return t is not None and tuple(t.shape) == (1, 1) and float(t[0, 0]) == SENTINEL


def computed_files(case, impl):
    """files of this run: everything in the directory except untouched sentinels of listed utterances"""
    listed = set(case["manifest"] or [])
    return {k: v for k, v in impl["files"].items() if not (k in listed and is_sentinel(v))}


def correspond_torch(ctx, case, impl, mout, objs):
    import torch

    comp, pres, posts = objs
    if mout == "bad-op":
        ctx.mismatch(case, mout, impl["outcome"], "driver rejected the run line")
        return
    m = parse_model_out(mout, True)
    ctx.count("torch_outcome:" + canon_outcome(m["outcome"]))
    got = computed_files(case, impl)
    brief = [impl["outcome"], sorted((k, tuple(v.shape)[0] if v is not None else None) for k, v in got.items()
                                     if not isinstance(k, str)), impl["appended"]]
    seeded = bool((RANDOM_STAGES & set(case["pres"])) | (SEED_STAGES & set(case["posts"])))
    comparable = not (seeded and case["seed"] is None)
    ents = {l[1]: l for l in torch_entries(case)}
    wants = None
    if comparable:
        sigs = {uid: torch_sig(case, l) for uid, l in ents.items()}
        env = torch_env(sigs, comp, pres, posts)
        wants = []
        try:
            for s in m["items"]:
                torch.manual_seed(s["seed"])  # the model's seed for this utterance
                wants.append(eval_term(parse_term(s["term"]), env))
        except Exception as e:
            ctx.count("stage_raises:" + type(e).__name__)
            return
    if m["outcome"] != impl["outcome"]:
        ctx.mismatch(case, m["outcome"], brief, "outcome (exit code / exception class and utterance)")
        return
    if sorted(s["id"] for s in m["items"]) != [k for k, _ in brief[1]] or any(isinstance(k, str) for k in got):
        ctx.mismatch(case, [s["id"] for s in m["items"]], brief, "written files")
        return
    if case["manifest"] is not None and m["manifest"] != impl["appended"]:
        ctx.mismatch(case, m["manifest"], impl["appended"], "lines appended to the manifest (order = write order)")
        return
    if wants is None:
        return
    for s, want in zip(m["items"], wants):
        g = got[s["id"]]
        n = ents[s["id"]][4]
        rows = n if comp is None else comp.compute_full(np.zeros(n)).shape[0]
        if (s["rows"] != rows or g.dtype != torch.float32 or tuple(g.shape) != want.shape
                or not mat_close(g.numpy(), want, tol(case))):
            ctx.mismatch(case, dict(id=s["id"], rows=s["rows"], seed=s["seed"], term=s["term"], shape=list(want.shape),
                                    head=np.asarray(want).ravel()[:4].tolist()),
                         dict(id=s["id"], dtype=str(g.dtype), shape=list(g.shape), head=g.numpy().ravel()[:4].tolist()),
                         "stored tensor vs the model's term (and seed) interpreted with the case's stages")
            return


def raise_trigger(case, comp, utts):
    """structural description of what in the input makes a run die (for known-finding predicates)"""
    from pydrobert.speech.compute import STFTFrameComputer

    n = [l[4] for l in utts]
    if isinstance(comp, STFTFrameComputer):
        L = comp.frame_length
        if any(L // 2 + 1 <= x < L for x in n):
            return "shorter_than_frame"
        if case["posts"] and any(x < L // 2 + 1 for x in n):
            return "zero_frames_with_postprocessor"
    elif case["posts"] and any(x == 0 for x in n):
        return "zero_frames_with_postprocessor"
    return "other"


def torch_chan_ok(case, l):
    _, uid, ndim, chans, samples, readable, ext = l
    if ndim == 1:
        return case["channel"] == -1
    return (case["channel"] == -1 and chans == 1) or (0 <= case["channel"] < chans)


def oracle_torch(ctx, case, impl, objs):
    import torch
    from pydrobert.speech.pre import Dither
    from pydrobert.speech.torch import PyTorchDither, PyTorchPreemphasize

    comp, pres, posts = objs
    ents = torch_entries(case)
    ids = [l[1] for l in ents]
    if any(l[0] == "x" for l in case["lines"]) or len(set(ids)) != len(ids) or case["channel"] < -1:
        ctx.count("out_of_scope")
        return
    listed = set(case["manifest"] or [])
    todo = [l for l in ents if l[1] not in listed]
    good = []
    for l in todo:
        if not (l[5] and torch_chan_ok(case, l) and (l[2] == 1 or l[3] >= 1)):
            break
        good.append(l)
    complete = len(good) == len(todo)
    tags = dict(tool="torch", family=case["family"])
    seeded = bool((RANDOM_STAGES & set(case["pres"])) | (SEED_STAGES & set(case["posts"])))
    comparable = not (seeded and case["seed"] is None)
    position = {uid: i for i, uid in enumerate(ids)}
    wants = {}
    try:
        for l in good if comparable else []:
            uid = l[1]
            if case["seed"] is not None:
                torch.manual_seed(case["seed"] + position[uid])  # the utterance's position in the map file
            x = torch_sig(case, l)
            if l[2] != 1:
                x = x[max(case["channel"], 0)]
            x = np.array(x, dtype=np.float64)
            for t in case["pres"]:
                p = pres[t]
                mod = PyTorchDither.from_dither(p) if isinstance(p, Dither) else PyTorchPreemphasize.from_preemphasize(p)
                with torch.no_grad():
                    x = mod(torch.from_numpy(x)).numpy()
            want = x[:, None] if comp is None else comp.compute_full(x)
            if want.shape[0]:
                for t in case["posts"]:
                    want = posts[t].apply(want)
            wants[uid] = want
    except Exception as e:
        # the library pipeline itself is undefined on this utterance (a stage rejects its input)
        ctx.count("out_of_scope")
        ctx.count("library_pipeline_raises:" + type(e).__name__)
        return
    if complete and impl["outcome"] != "exit=0":
        ctx.violation(case, "exit=0", impl["outcome"],
                      "signals-to-torch-feat-dir completes when every remaining utterance is readable and satisfies the channel rules",
                      tags=dict(tags, clause="raises", exc=impl["outcome"].split("@")[0],
                                trigger=raise_trigger(case, comp, good)))
        return
    if not complete:
        ctx.count("error_run")
    # listed utterances are not touched
    for uid in listed:
        if uid in impl["files"] and not is_sentinel(impl["files"][uid]):
            ctx.violation(case, "file of a manifest-listed utterance untouched", uid,
                          "utterances listed in the manifest are not recomputed", tags=dict(tags, clause="listed_touched"))
            return
    got = computed_files(case, impl)
    want_ids = [l[1] for l in good]
    if complete or impl["outcome"] == "exit=0":
        if sorted(k for k in got if not isinstance(k, str)) != sorted(want_ids) or any(isinstance(k, str) for k in got):
            ctx.violation(case, sorted(want_ids), sorted(str(k) for k in got),
                          "every utterance of the map not listed in the manifest is written under its own id, and nothing else",
                          tags=dict(tags, clause="ids"))
            return
        if case["manifest"] is not None and impl["appended"] != want_ids:
            ctx.violation(case, want_ids, impl["appended"], "the manifest gains exactly the written utterances, in map order",
                          tags=dict(tags, clause="manifest"))
            return
    for l in good:
        uid = l[1]
        if uid not in got:
            break
        g = got[uid]
        if g.dtype != torch.float32:
            ctx.violation(case, "torch.float32", str(g.dtype), 'features are stored as "torch.FloatTensor" (float32)',
                          tags=dict(tags, clause="dtype"))
            return
        if not comparable:
            continue
        want = wants[uid]
        ok = (g.shape[0] == 0 and g.ndim == 2) if want.shape[0] == 0 else \
            (tuple(g.shape) == want.shape and mat_close(g.numpy(), want, tol(case)))
        if not ok:
            ctx.violation(case, dict(id=uid, shape=list(want.shape), head=np.asarray(want).ravel()[:4].tolist()),
                          dict(id=uid, shape=list(g.shape), head=g.numpy().ravel()[:4].tolist()),
                          "stored tensor == post(compute_full(pre(signal[channel]))) (raw samples as a column without a computer) to float32 precision",
                          tags=dict(tags, clause="values"))
            return
    if not comparable:
        ctx.count("values_not_comparable(no seed)")


# ---------------------------------------------------------------------------------------------
# generators

SYNTAXES = ["inline", "json", "yaml"]


def pick_syntax(r):
    return [r.choice(SYNTAXES) for _ in range(3)]


def pick_stages(r, pool, maxn=3):
    n = r.choice([0, 0, 1, 1, 2, 2, 3][: 4 + maxn])
    return [r.choice(pool) for _ in range(n)]


def lengths(r, L):
    return r.choice([1, max(1, L // 2), L // 2 + 1, L, 2 * L + 1, r.randrange(1, 4 * L), r.randrange(1, 31)])


def gen_kaldi_tracer(r):
    L = r.randrange(2, 9)
    S = r.randrange(1, L + 1)
    centered = r.random() < 0.7
    rate = r.choice([1000, 2000, 500])
    comp = tracer_computer_cfg(L, S, centered, centered and r.random() < 0.4, rate, r.choice([1, 2]),
                               r.choice(["pow", "ramp"]))
    n = r.choice([0, 1, 1, 2, 3, 4, 5, 6, 7, 8])
    channel = r.choice([-1, -1, -1, 0, 0, 1, 1, 2, 3, -2] if r.random() < 0.15 else [-1, -1, 0, 0, 1, 1, 2])
    utts = []
    ids = r.sample(range(1, 60), n)
    if r.random() < 0.5:
        ids.sort()
    for uid in ids:
        if channel <= 0:
            chans = r.choice([1, 1, 1, 2, 3]) if channel == 0 else r.choice([1, 1, 1, 1, 1, 2])
        else:
            chans = r.choice([1, 2, 2, 3, 3, 4])
        urate = rate if r.random() < 0.85 else r.choice([x for x in (1000, 2000, 500, 8000) if x != rate])
        utts.append([uid, chans, lengths(r, L), urate, r.random() < 0.99])
    durs = sorted({float(np.float32(u[2]) / np.float32(u[3])) for u in utts})
    k = r.random()
    if k < 0.35 or not durs:
        md = None
    elif k < 0.65:
        md = repr(r.choice(durs))  # exactly the duration of some utterance: must be kept
    elif k < 0.9:
        md = repr(r.choice(durs) * r.choice([0.5, 1.0001, 1.5]))
    else:
        md = r.choice(["0", "0.0", "1e3", "0.004"])
    return dict(tool="kaldi", family="tracer", computer=comp, rate=rate, channel=channel, min_dur=md,
                pres=pick_stages(r, [1, 2, 3, 4]), posts=pick_stages(r, [51, 52, 53, 54]),
                seed=r.choice([None, None, r.randrange(0, 1000)]), syntax=pick_syntax(r), utts=utts,
                as_mapping=r.random() < 0.3, explicit_empty=r.random() < 0.3, explicit_channel=r.random() < 0.3)


def gen_kaldi_library(r, kinds=("fbank", "fbank", "gabor", "si")):
    rate = r.choice([8000, 8000, 16000])
    kind = r.choice(kinds)
    comp = library_computer_cfg(kind, rate, r)
    n = r.choice([1, 2, 3, 4, 5])
    channel = r.choice([-1, -1, 0, 1])
    utts = []
    for uid in r.sample(range(1, 60), n):
        chans = 1 if channel == -1 else r.choice([1, 2, 2, 3])
        samples = r.choice([60, 90, rate // 80 + 1, rate // 40, rate // 20, r.randrange(100, rate // 5)])
        urate = rate if r.random() < 0.85 else (8000 if rate != 8000 else 16000)
        utts.append([uid, chans, samples, urate, True])
    pres = r.choice([[], [21], [22], [23], [24, 21], [21, 23], [22, 22]])
    posts = r.choice([[], [61], [62], [63], [61, 63], [63, 62], [64, 61], [65, 62]])
    md = r.choice([None, None, "0.005", "0.01", repr(float(np.float32(utts[0][2]) / np.float32(utts[0][3])))])
    return dict(tool="kaldi", family="library", computer=comp, rate=rate, channel=channel, min_dur=md, pres=pres,
                posts=posts, seed=r.randrange(0, 1000), syntax=pick_syntax(r), utts=utts,
                as_mapping=r.random() < 0.3, explicit_empty=False, explicit_channel=r.random() < 0.3)


def gen_torch_lines(r, channel, n, Lhint, family, p_bad):
    lines = []
    ids = r.sample(range(1, 60), n)
    for uid in ids:
        bad = r.random() < p_bad
        if channel == -1:
            ndim, chans = r.choice([(1, 1), (1, 1), (2, 1)]) if not bad else (2, r.choice([2, 3]))
        else:
            ndim, chans = (2, channel + r.choice([1, 1, 2])) if not bad else r.choice([(1, 1), (2, max(1, channel))])
        if family == "tracer":
            samples = r.choice([0, 1, max(1, Lhint // 2), Lhint // 2 + 1, Lhint, 2 * Lhint + 1, r.randrange(1, 31)])
        else:
            samples = r.choice([60, 90, 101, 200, 400, r.randrange(100, 1600)])
        readable = r.random() < (0.97 if p_bad else 1.0)
        ext = r.choice(["npy", "pt", "wav"] if (ndim == 1 and samples >= 1) else ["npy", "pt"])
        lines.append(["u", uid, ndim, chans, samples, readable, ext])
        if r.random() < 0.1:
            lines.append(["b"])
    k = r.random()
    if p_bad and k < 0.04:
        lines.insert(r.randrange(0, len(lines) + 1), ["x"])
    elif p_bad and k < 0.08 and lines:
        dup = list(r.choice([l for l in lines if l[0] == "u"]))
        lines.append(dup)
    return lines


def gen_manifest(r, lines):
    ids = [l[1] for l in lines if l[0] == "u"]
    k = r.random()
    if k < 0.45:
        return None
    man = [i for i in ids if r.random() < 0.4]
    r.shuffle(man)
    if r.random() < 0.3:
        man.insert(r.randrange(0, len(man) + 1), 99)  # an id that is not in the map
    if r.random() < 0.1:
        man = list(ids)
    return man


def gen_torch_tracer(r):
    L = r.randrange(2, 9)
    S = r.randrange(1, L + 1)
    centered = r.random() < 0.7
    comp = None if r.random() < 0.25 else tracer_computer_cfg(
        L, S, centered, centered and r.random() < 0.4, 1000, r.choice([1, 2]), r.choice(["pow", "ramp"]))
    channel = r.choice([-1, -1, -1, 0, 0, 1, 1, 2, 3])
    n = r.choice([0, 1, 1, 2, 3, 4, 5, 6, 7, 8])
    lines = gen_torch_lines(r, channel, n, L, "tracer", r.choice([0.0, 0.0, 0.06, 0.15]))
    pres = pick_stages(r, [11, 12, 13, 14, 15])
    posts = pick_stages(r, [51, 52, 53, 54, 59])
    seeded = bool((RANDOM_STAGES & set(pres)) | (SEED_STAGES & set(posts)))
    seed = r.randrange(0, 500) if (seeded or r.random() < 0.5) else None
    return dict(tool="torch", family="tracer", computer=comp, channel=channel, pres=pres, posts=posts, seed=seed,
                manifest=gen_manifest(r, lines), syntax=pick_syntax(r), lines=lines,
                prefix=r.choice(["", "", "f_"]), suffix=r.choice([".pt", ".pt", ".feat.pt"]),
                as_mapping=r.random() < 0.3, explicit_empty=r.random() < 0.3, explicit_channel=r.random() < 0.3,
                space=r.random() < 0.2)


def gen_torch_library(r, kinds=("fbank", "fbank", "gabor", "si", "none")):
    rate = 8000
    kind = r.choice(kinds)
    comp = None if kind == "none" else library_computer_cfg(kind, rate, r)
    channel = r.choice([-1, -1, 0, 1])
    lines = gen_torch_lines(r, channel, r.choice([1, 2, 3, 4]), 200, "library", 0.0)
    pres = r.choice([[], [21], [22], [23], [24, 21], [21, 23]])
    posts = r.choice([[], [61], [62], [63], [61, 63], [63, 62], [64, 61], [65, 62]])
    return dict(tool="torch", family="library", computer=comp, channel=channel, pres=pres, posts=posts,
                seed=r.randrange(0, 500), manifest=gen_manifest(r, lines), syntax=pick_syntax(r), lines=lines,
                prefix="", suffix=".pt", as_mapping=r.random() < 0.3, explicit_empty=False,
                explicit_channel=r.random() < 0.3, space=False)


def gabor_cfg(ms, style):
    return {"name": "stft", "bank": {"name": "gabor", "scaling_function": "mel", "num_filts": 5, "sampling_rate": 8000},
            "frame_length_ms": ms, "frame_shift_ms": 10, "frame_style": style, "use_log": True,
            "pad_to_nearest_power_of_two": False}


# fixed cases that must always be present (each was a defect, or is a boundary of the property)
def corpus():
    tc = tracer_computer_cfg(4, 2, True, False, 1000, 1, "pow")
    fb = {"name": "stft", "bank": {"name": "fbank", "num_filts": 5, "sampling_rate": 8000}, "frame_length_ms": 25,
          "frame_shift_ms": 10, "frame_style": "centered"}
    base_k = dict(tool="kaldi", family="tracer", computer=tc, rate=1000, channel=-1, min_dur=None, pres=[], posts=[],
                  seed=None, syntax=["inline"] * 3, as_mapping=False, explicit_empty=False, explicit_channel=False)
    base_t = dict(tool="torch", family="tracer", computer=tc, channel=-1, pres=[], posts=[], seed=3, manifest=None,
                  syntax=["inline"] * 3, prefix="", suffix=".pt", as_mapping=False, explicit_empty=False,
                  explicit_channel=False, space=False)
    return [
        # post-processors applied, in order, once; zero-frame utterance in the middle
        dict(base_k, pres=[1, 2], posts=[51, 52], utts=[[1, 1, 9, 1000, True], [2, 1, 2, 1000, True], [3, 1, 12, 1000, True]]),
        # wrong rate in the middle: skipped, not fatal
        dict(base_k, posts=[51], utts=[[1, 1, 9, 1000, True], [2, 1, 9, 2000, True], [3, 1, 9, 1000, True]]),
        # exactly --min-duration is kept, below is dropped; explicit channel on multi-channel data
        dict(base_k, channel=1, min_dur=repr(float(np.float32(9) / np.float32(1000))),
             utts=[[1, 2, 9, 1000, True], [2, 2, 8, 1000, True], [3, 1, 9, 1000, True], [4, 3, 30, 1000, True]]),
        # nothing survives: exit code 1
        dict(base_k, channel=3, utts=[[1, 2, 9, 1000, True], [2, 1, 9, 1000, True]]),
        dict(base_k, utts=[]),
        # library: unit on a zero-frame utterance (the repo's own test does this with 126 samples)
        dict(base_k, family="library", computer=fb, rate=8000, pres=[21], posts=[61, 63], seed=5,
             utts=[[1, 1, 400, 8000, True], [2, 1, 60, 8000, True], [3, 1, 900, 8000, True]]),
        # a long recording (longer than 2**16 samples: whatever a stage processes in blocks, the blocks must join up) with
        # pre-emphasis - the kaldi tool runs its pre-processors in place on a float64 buffer, the torch tool does not
        dict(base_k, family="library", computer=fb, rate=8000, pres=[22], posts=[], seed=5,
             utts=[[1, 1, 70001, 8000, True], [3, 1, 400, 8000, True]]),
        dict(base_t, family="library", computer=fb, pres=[22], posts=[],
             lines=[["u", 1, 1, 1, 70001, True, "npy"], ["u", 3, 1, 1, 500, True, "wav"]]),
        # frames with gaps between them (frame shift longer than the frame), lengths on both sides of the last frame's reach:
        # the PyTorch port must produce exactly the frames compute_full does, through both tools
        dict(base_t, family="library", seed=4,
             computer={"name": "stft", "bank": {"name": "fbank", "num_filts": 4, "sampling_rate": 16000},
                       "frame_length_ms": 10, "frame_shift_ms": 25, "frame_style": "centered"},
             lines=[["u", 1, 1, 1, 2150, True, "npy"], ["u", 3, 1, 1, 3300, True, "npy"], ["u", 5, 1, 1, 3390, True, "wav"], ["u", 7, 1, 1, 801, True, "pt"]]),
        dict(base_t, family="library", seed=4,
             computer={"name": "stft", "bank": {"name": "fbank", "num_filts": 4, "sampling_rate": 8000},
                       "frame_length_ms": 5, "frame_shift_ms": 12, "frame_style": "causal"},
             lines=[["u", 1, 1, 1, 500, True, "npy"], ["u", 3, 1, 1, 277, True, "npy"], ["u", 5, 1, 1, 193, True, "wav"]]),
        dict(base_k, family="library", rate=16000, seed=5,
             computer={"name": "stft", "bank": {"name": "fbank", "num_filts": 4, "sampling_rate": 16000},
                       "frame_length_ms": 10, "frame_shift_ms": 25, "frame_style": "centered"},
             utts=[[1, 1, 2150, 16000, True], [3, 1, 3300, 16000, True]]),
        # torch: zero-frame utterance followed by others, with a post-processor that rejects empty input
        dict(base_t, family="library", computer=fb, posts=[63],
             lines=[["u", 1, 1, 1, 400, True, "npy"], ["u", 2, 1, 1, 60, True, "pt"], ["u", 3, 1, 1, 500, True, "wav"]]),
        # torch: a causal STFT and a signal of at least L//2+1 but fewer than L samples (the PyTorch port used to
        # build its symmetric padding from slices no longer than the signal); later utterances must still appear
        dict(base_t, family="library", seed=1,
             computer={"name": "stft", "bank": {"name": "fbank", "num_filts": 4, "sampling_rate": 16000},
                       "frame_length_ms": 25, "frame_shift_ms": 10, "frame_style": "causal"},
             lines=[["u", 1, 1, 1, 900, True, "npy"], ["u", 2, 1, 1, 250, True, "npy"], ["u", 3, 1, 1, 700, True, "pt"]]),
        # complex (Gabor) bank whose top filters wrap past the half spectrum, DFT sizes of both parities without
        # padding: the torch tool runs the PyTorch port's mirrored pass, the kaldi tool NumPy's
        dict(base_t, family="library", seed=2, computer=gabor_cfg(20.125, "centered"),
             lines=[["u", 1, 1, 1, 700, True, "npy"], ["u", 2, 1, 1, 400, True, "pt"]]),
        dict(base_t, family="library", seed=2, computer=gabor_cfg(20, "causal"),
             lines=[["u", 1, 1, 1, 650, True, "npy"], ["u", 2, 1, 1, 300, True, "wav"]]),
        dict(base_k, family="library", computer=gabor_cfg(25.125, "centered"), rate=8000, seed=5,
             utts=[[1, 1, 700, 8000, True], [2, 1, 500, 8000, True]]),
        dict(base_t, computer=tracer_computer_cfg(8, 2, False, False, 1000, 2, "ramp"), posts=[51],
             lines=[["u", 1, 1, 1, 5, True, "npy"], ["u", 2, 1, 1, 6, True, "wav"], ["u", 3, 1, 1, 20, True, "pt"]]),
        # torch: seed = position in the map, also after a resume (manifest lists the first utterance)
        dict(base_t, pres=[14, 11], posts=[59, 51], seed=40, manifest=[1],
             lines=[["u", 1, 1, 1, 9, True, "npy"], ["b"], ["u", 2, 1, 1, 12, True, "npy"], ["u", 3, 1, 1, 7, True, "wav"]]),
        # torch: channel pick + raw samples as a column
        dict(base_t, computer=None, channel=1, pres=[11], posts=[52],
             lines=[["u", 1, 2, 2, 5, True, "npy"], ["u", 2, 2, 3, 0, True, "pt"]]),
        # torch: channel rules: the third utterance is 1-D although a channel is given
        dict(base_t, channel=0, lines=[["u", 1, 2, 1, 9, True, "npy"], ["u", 2, 2, 2, 9, True, "pt"],
                                       ["u", 3, 1, 1, 9, True, "npy"], ["u", 4, 2, 2, 9, True, "npy"]]),
    ]


# ---------------------------------------------------------------------------------------------
# run


def do_case(ctx, case, root):
    """Run one case on the implementation; returns (impl, objs, model line or None)."""
    objs = build_objects(case)
    if case["tool"] == "kaldi":
        impl = run_kaldi(case, root)
        line = kaldi_line(case, impl["durs"], objs[0])
    else:
        impl = run_torch(case, root)
        line = torch_line(case, objs[0])
    return impl, objs, line


def check_case(ctx, case, impl, objs, mout):
    if case["tool"] == "kaldi":
        if mout is not None:
            correspond_kaldi(ctx, case, impl, mout, objs)
        oracle_kaldi(ctx, case, impl, objs)
    else:
        if mout is not None:
            correspond_torch(ctx, case, impl, mout, objs)
        oracle_torch(ctx, case, impl, objs)


def stored_equal(case, a, b):
    if a["outcome"] != b["outcome"]:
        return False
    if case["tool"] == "kaldi":
        if isinstance(a["stored"], str) or isinstance(b["stored"], str):
            return a["stored"] == b["stored"]
        return len(a["stored"]) == len(b["stored"]) and all(
            i == j and x.shape == y.shape and np.array_equal(x, y) for (i, x), (j, y) in zip(a["stored"], b["stored"]))
    fa, fb = a["files"], b["files"]
    return sorted(map(str, fa)) == sorted(map(str, fb)) and all(
        (fa[k] is None and fb[k] is None) or (fa[k].dtype == fb[k].dtype and fa[k].shape == fb[k].shape
                                              and np.array_equal(fa[k].numpy(), fb[k].numpy())) for k in fa)


def run_level_oracles(ctx, case, root):
    """config_syntax_irrelevant and same-seed determinism (run-level; no Lean counterpart)."""
    runner = run_kaldi if case["tool"] == "kaldi" else run_torch
    tags = dict(tool=case["tool"], family=case["family"])
    ref = runner(case, root, syntax=["inline"] * 3)
    for syn in (["json"] * 3, ["yaml"] * 3):
        other = runner(case, root, syntax=syn)
        ctx.count("syntax_runs")
        if not stored_equal(case, ref, other):
            ctx.violation(dict(case, syntax=syn), "identical to the inline-JSON run", "differs",
                          "the same configuration as inline JSON, JSON file or YAML file yields the same stored features",
                          tags=dict(tags, clause="config_syntax", syntax=syn[0]))
            return
    if case["seed"] is not None:
        np.random.seed(12345)  # unrelated global state must not matter
        again = runner(case, root, syntax=["inline"] * 3)
        ctx.count("seed_runs")
        if not stored_equal(case, ref, again):
            ctx.violation(case, "identical stored features", "differs",
                          "with a fixed --seed two runs produce identical output", tags=dict(tags, clause="seed_determinism"))


def case_kind(case):
    n = len(case["utts"]) if case["tool"] == "kaldi" else len(torch_entries(case))
    return "%s:%s:n%d" % (case["tool"], case["family"], n)


def run(ctx, driver):
    r = ctx.rng
    root = tempfile.mkdtemp(prefix="c09-", dir="/tmp")
    try:
        cases = corpus()
        for _ in range(ctx.scale(220, 3000)):
            cases.append(gen_kaldi_tracer(r))
        for _ in range(ctx.scale(220, 3000)):
            cases.append(gen_torch_tracer(r))
        for _ in range(ctx.scale(30, 400)):
            cases.append(gen_kaldi_library(r))
        for _ in range(ctx.scale(30, 400)):
            cases.append(gen_torch_library(r))
        done = []
        for case in cases:
            if ctx.out_of_time():
                ctx.note("time budget reached after %d cases" % len(done))
                break
            try:
                impl, objs, line = do_case(ctx, case, root)
            except Exception as e:  # the harness could not even set the case up
                ctx.count("setup_error:" + type(e).__name__)
                ctx.note("setup error %s: %s" % (type(e).__name__, str(e)[:200]))
                continue
            ctx.case(case, nontrivial=not case_kind(case).endswith(":n0"), kind=case_kind(case))
            ctx.count("channel:%d" % case["channel"])
            ctx.count("pres:%d posts:%d" % (len(case["pres"]), len(case["posts"])))
            done.append((case, impl, objs, line))
        lines = [d[3] for d in done if d[3] is not None]
        outs = iter(driver.run(lines)) if lines else iter(())
        ctx.corr_lines += len(lines)
        ctx.count("correspondence_lines", len(lines))
        for case, impl, objs, line in done:
            mout = next(outs) if line is not None else None
            if line is None:
                ctx.count("oracle_only(no row model)")
            before = len(ctx.violations)
            check_case(ctx, case, impl, objs, mout)
            if len(ctx.violations) > before and len(ctx.violations) <= 3:
                shrink_last(ctx, root)
        # run-level clauses
        k = ctx.scale(8, 80)
        for i in range(k):
            if ctx.out_of_time():
                break
            case = (gen_kaldi_library(r, kinds=("fbank", "gabor")) if i % 2 == 0 else
                    gen_torch_library(r, kinds=("fbank", "gabor", "none")))
            if i % 4 >= 2:
                case = gen_kaldi_tracer(r) if i % 2 == 0 else gen_torch_tracer(r)
                if case["seed"] is None:
                    case["seed"] = 7
            ctx.case(dict(case, run_level=True), kind="run_level:" + case["tool"])
            try:
                run_level_oracles(ctx, case, root)
            except Exception as e:
                ctx.count("setup_error:" + type(e).__name__)
                ctx.note("run-level setup error %s: %s" % (type(e).__name__, str(e)[:200]))
    finally:
        shutil.rmtree(root, ignore_errors=True)


def shrink_last(ctx, root):
    """Delta-debug the newest violation: drop utterances / stages while the same oracle clause still fails."""
    v = ctx.violations[-1]
    clause = v["tags"].get("clause")
    if clause in ("config_syntax", "seed_determinism"):
        return
    case = json.loads(json.dumps(v["case"]))

    def fails(c):
        sub = common.Ctx(ctx.prop, ctx.tier, 0, 60)
        try:
            impl, objs, _ = do_case(sub, c, root)
            (oracle_kaldi if c["tool"] == "kaldi" else oracle_torch)(sub, c, impl, objs)
        except Exception:
            return None
        for w in sub.violations:
            if w["tags"].get("clause") == clause:
                return w
        return None

    best = None
    changed = True
    budget = 40
    while changed and budget > 0:
        changed = False
        for key in (("utts",) if case["tool"] == "kaldi" else ("lines",)) + ("pres", "posts"):
            i = 0
            while i < len(case[key]) and budget > 0:
                trial = dict(case)
                trial[key] = case[key][:i] + case[key][i + 1:]
                budget -= 1
                w = fails(trial)
                if w is not None:
                    case, best, changed = trial, w, True
                else:
                    i += 1
    if best is not None:
        best = dict(best)
        best["tags"] = v["tags"]
        ctx.violations[-1] = best
        ctx.count("shrunk")


def replay(rp):
    case = rp.get("case", {})
    print(common.canon(case))
    if case.get("tool") not in ("kaldi", "torch"):
        print("oracle:", rp.get("oracle"), "expected", rp.get("expected"), "got", rp.get("got"))
        return 0
    root = tempfile.mkdtemp(prefix="c09-replay-", dir="/tmp")
    ctx = common.Ctx(PROP, "quick", 0, 600)
    try:
        if case.get("run_level") or rp.get("tags", {}).get("clause") in ("config_syntax", "seed_determinism"):
            run_level_oracles(ctx, case, root)
        else:
            impl, objs, line = do_case(ctx, case, root)
            if case["tool"] == "kaldi":
                shown = [impl["outcome"], impl["stored"] if isinstance(impl["stored"], str) else
                         [(i, list(a.shape), a.ravel()[:6].tolist()) for i, a in impl["stored"]]]
            else:
                shown = [impl["outcome"], [(k, None if v is None else (str(v.dtype), list(v.shape), v.numpy().ravel()[:6].tolist()))
                                           for k, v in impl["files"].items()], impl["appended"]]
            print("impl:", shown)
            mout = None
            if line is not None:
                mout = common.Driver(PROP).run([line])[0]
                print("model line:", line)
                print("model:", mout)
            check_case(ctx, case, impl, objs, mout)
    finally:
        shutil.rmtree(root, ignore_errors=True)
    for m in ctx.mismatches:
        print("correspondence mismatch:", m["what"], "| model", m["model"], "| impl", m["impl"])
    for v in ctx.violations:
        print("oracle violated:", v["oracle"], "| expected", v["expected"], "| got", v["got"])
    if not ctx.violations:
        print("oracle: holds on this case")
    print("recorded oracle:", rp.get("oracle"), "expected", rp.get("expected"), "got", rp.get("got"))
    return 0

"""C08 - alias / JSON configuration builds the same objects as explicit construction.

Ties of the Lean model (lean/PdsVerif/Model/Alias.lean) to the code:
 (a) introspection translator harness/translate/registry.py -> Generated/Registry.lean, every run;
 (b) `resolve` vs `AliasedFactory.from_alias` on random synthetic class hierarchies that are created in a
     throw-away interpreter (the hierarchy the model receives is *dumped back by introspection* from the live
     class objects, so it is whatever Python really built);
 (c) `fromArg` vs `alias_factory_subclass_from_arg` on generated arguments (identity / contents of the
     mapping are read back after the call);
 (d) `registry.resolve` on the generated registry vs the live package.
Property oracle on the implementation (independent of the model): see `ORACLES`.
"""
import copy
import inspect
import json
import os
import subprocess
import sys

import numpy as np

from . import common
from .translate import registry as tr

PROP = "C08"
MODULES = ["PdsVerif.Props.C08", "PdsVerif.Lemmas.Alias"]
MODEL_MODULES = ["PdsVerif.Model.Alias", "PdsVerif.Generated.Registry"]
REQUIRED = ["PdsVerif.C08." + n for n in """
    resolve_eq_spec order_def order_mem_iff resolve_never_out_of_fuel resolve_ok_iff resolve_sound
    unknown_alias valueError_iff_unknown known_alias_resolves
    before_wins before_total shared_alias_first_wins subclass_before_ancestor subclass_shadows_ancestor
    later_sibling_before earlier_sibling_never_wins last_registered_wins
    registry_table_matches_tree registry_ids_nodup registry_complete registry_families_inhabited
    registry_aliases_unambiguous
    fromArg_instance fromArg_foreign_instance fromArg_str fromArg_str_unknown fromArg_alias_over_name
    fromArg_name_fallback fromArg_missing_key fromArg_map_ok fromAlias_non_string fromArg_other fromArg_pure
    """.split()]
RULE = (
    "synthetic hierarchies: 1..12 (thorough: ..25) AliasedFactory subclasses created dynamically in a fresh "
    "interpreter, shape drawn from {random attachment, deep chain, star, two-level}, aliases drawn from a "
    "5-letter pool (so sharing / shadowing is the norm), 20% of classes inherit `aliases`; classes keep being "
    "registered between query phases (late registration); every (hierarchy, start class, alias) and every "
    "(hierarchy, factory, argument) is a case, distinct by content. Live registry: every (family, class, alias), "
    "unknown / foreign-family / case-variant aliases. Features: random nested configurations (computer > bank > "
    "scale, + window) over all published aliases, three spellings (str / {'alias':..} / {'name':..}), "
    "JSON round-tripped."
)
TRUSTED = [
    "introspection translator harness/translate/registry.py (reads __subclasses__(), cls.aliases, inspect.isabstract in a fresh interpreter; refuses a class reachable along two paths or aliases that are not a set of str)",
    "class identity is modelled by a numeric id (distinctness = hypothesis `ids.Nodup`, checked by `decide` for the registry, by the driver for synthetic hierarchies)",
    "`__subclasses__()` order is read, not assumed; the constructor call `parent(*args, **kwargs)` itself is outside the model (the model returns the class and the keyword arguments)",
    "alias values: a non-str hashable is never a member of a set of str (ValueError); an unhashable one raises TypeError in `in` (aliases are sets - checked by the translator / by construction)",
    "bit-identity of features of JSON-built vs explicitly built computers is a run on the implementation, not a theorem",
]
ASSUMPTIONS = [
    "single inheritance inside the hierarchy (tree model); the translator refuses a diamond",
    "'registered last wins' is proved in the form the code implements: later-registered *sibling branches* are searched first and descendants before ancestors (theorems later_sibling_before / subclass_before_ancestor / shared_alias_first_wins). A class registered later *below an earlier sibling* does not beat a carrier at or below a later sibling (R>A, R>B{x}, then A>A1{x}: R.from_alias('x') builds B). Counted per run as `winner_not_globally_last_registered`.",
    "mapping keys are str (JSON objects); keys are distinct",
]
LEVEL_TEXT = (
    "Full proof, for every finite class hierarchy: the stack loop of from_alias equals 'first carrier in "
    "(subclasses' hierarchies, last registered first; then the class itself)', needs at most 2*size iterations, "
    "ValueError iff no class of the family carries the alias, later sibling / descendant wins a shared alias; "
    "registry completeness and unambiguity by kernel evaluation over the hierarchy re-dumped from the package on "
    "every run; alias_factory_subclass_from_arg clause by clause incl. error cases and argument purity. "
    "Bit-identical features of JSON-built vs explicit computers: tested, not proved."
)
LEVEL_NOTE = (
    "Trusted: Lean kernel, std axioms, the registry introspection translator, correspondence on synthetic "
    "hierarchies (class identity = id, constructor call outside the model). Tree model assumes single inheritance "
    "inside the hierarchy. 'Last registered' is sibling-branch order, not global creation time (see assumptions)."
)
TECHNIQUE = "Lean 4 proof (all hierarchies) + kernel-evaluated theorem over the generated live registry + correspondence"

FAMILIES = [
    ("pydrobert.speech.scales", "ScalingFunction"),
    ("pydrobert.speech.filters", "LinearFilterBank"),
    ("pydrobert.speech.filters", "WindowFunction"),
    ("pydrobert.speech.compute", "FrameComputer"),
    ("pydrobert.speech.pre", "PreProcessor"),
    ("pydrobert.speech.post", "PostProcessor"),
]

# documented aliases (the `aliases = {...}  #:` class attributes as published), per family
PUBLISHED = {
    "ScalingFunction": {"LinearScaling": ["linear", "uniform"], "OctaveScaling": ["octave"], "MelScaling": ["mel"],
                        "BarkScaling": ["bark"]},
    "LinearFilterBank": {"TriangularOverlappingFilterBank": ["tri", "triangular"], "Fbank": ["fbank"],
                         "GaborFilterBank": ["gabor"], "ComplexGammatoneFilterBank": ["gammatone", "tonebank"]},
    "WindowFunction": {"BartlettWindow": ["bartlett", "triangular", "tri"], "BlackmanWindow": ["blackman", "black"],
                       "HammingWindow": ["hamming"], "HannWindow": ["hanning", "hann"], "GammaWindow": ["gamma"]},
    "FrameComputer": {"ShortTimeFourierTransformFrameComputer": ["stft"], "ShortIntegrationFrameComputer": ["si"]},
    "PreProcessor": {"Dither": ["dither", "dithering"], "Preemphasize": ["preemphasize", "preemphasis", "preemph"]},
    "PostProcessor": {"Standardize": ["standardize", "normalize", "unit", "cmvn"], "Deltas": ["deltas"],
                      "Stack": ["stack"]},
}

# values for constructor parameters without a default, by parameter name
FILL = {"scaling_function": "mel", "bank": "fbank", "low_hz": 20.0, "num_deltas": 1, "num_vectors": 2}


def translate(repo):
    files, _ = tr.generate(repo)
    return files


# =====================================================================================================
# synthetic hierarchies: worker run in a throw-away interpreter
# =====================================================================================================

WORKER = r'''
import sys, json, copy, collections, collections.abc, types, warnings, os
src = sys.argv[1]
sys.path.insert(0, src)
warnings.simplefilter("ignore")
import pydrobert.speech.alias as _al
assert os.path.realpath(_al.__file__).startswith(os.path.realpath(src)), _al.__file__
from pydrobert.speech.alias import AliasedFactory, alias_factory_subclass_from_arg
from pydrobert.speech import AliasedFactory as ShimAliasedFactory   # the deprecated re-export: same behaviour promised

def enc(v):
    if isinstance(v, str):
        return "s:" + v
    if isinstance(v, (list, dict)):
        return "u:" + json.dumps(v, separators=(",", ":"), sort_keys=True)
    return "h:" + json.dumps(v)

class CtorError(ValueError):
    pass

def _init(self, *a, **kw):
    if "boom" in kw and keyof.get(id(type(self))) == kw["boom"]:
        # ONE class of the hierarchy (the one named by `boom`) rejects its arguments with a ValueError of its own, as the
        # library's constructors do; every other class accepts them
        raise CtorError("constructor of %s rejects its arguments" % type(self).__name__)
    self.args = a
    self.kw = kw

class ROMapping(collections.abc.Mapping):
    """a Mapping that is not a dict and cannot be mutated through the Mapping interface"""
    def __init__(self, items): self._d = dict(items)
    def __getitem__(self, k): return self._d[k]
    def __iter__(self): return iter(self._d)
    def __len__(self): return len(self._d)

def build_mapping(kind, items):
    items = [(k, copy.deepcopy(v)) for k, v in items]
    if kind == "dict": return dict(items)
    if kind == "ordered": return collections.OrderedDict(items)
    if kind == "proxy": return types.MappingProxyType(dict(items))
    return ROMapping(items)

out = []
for fi, forest in enumerate(json.load(sys.stdin)):
    classes, keyof, phases_out = {}, {}, []
    # every fourth family is declared through the package-level (deprecated) AliasedFactory
    Root = ShimAliasedFactory if fi % 4 == 1 else AliasedFactory
    for phase in forest["phases"]:
        for nd in phase["create"]:
            base = Root if nd["parent"] is None else classes[nd["parent"]]
            ns = {"__init__": _init, "__module__": "c08synthetic"}
            if nd["aliases"] is not None:
                # the alias container a user class declares: a set, or any other container of names (frozenset, tuple)
                ns["aliases"] = [set, frozenset, set, tuple][nd["k"] % 4](nd["aliases"])
            cls = type("S%d" % nd["k"], (base,), ns)
            classes[nd["k"]] = cls
            keyof[id(cls)] = nd["k"]
        def dump(cls):
            return {"id": keyof[id(cls)], "aliases": sorted(getattr(cls, "aliases", None) or []),
                    "subs": [dump(s) for s in cls.__subclasses__()]}
        tree = dump(classes[forest["root"]])
        answers = []
        for q in phase["queries"]:
            if q["q"] == "resolve_boom":
                try:
                    winner = keyof.get(id(type(classes[q["root"]].from_alias(q["alias"]))), -1)
                except Exception as e:
                    winner = None
                try:
                    r = classes[q["root"]].from_alias(q["alias"], boom=winner)
                    answers.append({"ok": keyof.get(id(type(r)), -1), "winner": winner})
                except Exception as e:
                    answers.append({"err": type(e).__name__, "winner": winner})
            elif q["q"] == "resolve":
                try:
                    r = classes[q["root"]].from_alias(q["alias"])
                    answers.append({"ok": keyof.get(id(type(r)), -1), "kw": [[k, enc(v)] for k, v in r.kw.items()],
                                    "nargs": len(r.args)})
                except Exception as e:
                    answers.append({"err": type(e).__name__})
            else:
                a = q["arg"]
                if a["t"] == "inst":
                    arg = classes[a["cls"]]()
                elif a["t"] == "str":
                    arg = a["s"]
                elif a["t"] == "map":
                    arg = build_mapping(a["kind"], a["items"])
                else:
                    arg = a["v"]
                before = copy.deepcopy(list(arg.items())) if a["t"] == "map" else None
                ans = {}
                try:
                    r = alias_factory_subclass_from_arg(classes[q["fac"]], arg)
                    if r is arg:
                        ans["same"] = True
                    else:
                        ans["new"] = keyof.get(id(type(r)), -1)
                        ans["kw"] = [[k, enc(v)] for k, v in r.kw.items()]
                        ans["nargs"] = len(r.args)
                except Exception as e:
                    ans["err"] = type(e).__name__
                if a["t"] == "map":
                    after = list(arg.items())
                    ans["after"] = [[k, enc(v)] for k, v in after]
                    ans["unchanged"] = (after == before)
                answers.append(ans)
        phases_out.append({"tree": tree, "answers": answers})
    out.append(phases_out)
json.dump(out, sys.stdout)
'''


def run_worker(forests):
    env = dict(os.environ)
    env.pop("PYTHONPATH", None)
    env["PYTHONDONTWRITEBYTECODE"] = "1"
    p = subprocess.run([sys.executable, "-c", WORKER, common.repo_src()], input=json.dumps(forests),
                       stdout=subprocess.PIPE, stderr=subprocess.PIPE, text=True, env=env, timeout=1800)
    if p.returncode != 0:
        raise RuntimeError("synthetic-hierarchy worker failed: " + p.stderr[-1500:])
    return json.loads(p.stdout)


POOL = ["a", "b", "c", "d", "e"]
UNKNOWN = ["zz", "", "A", "ab", "a ", "aa"]


def enc(v):
    if isinstance(v, str):
        return "s:" + v
    if isinstance(v, (list, dict)):
        return "u:" + json.dumps(v, separators=(",", ":"), sort_keys=True)
    return "h:" + json.dumps(v)


def gen_forest(r, big):
    nmax = 25 if big else 12
    n = r.choice([1, 2, 3]) if r.random() < 0.15 else r.randint(2, nmax)
    shape = r.choice(["random", "random", "chain", "star", "two", "recent"])
    nphase = r.choice([1, 1, 2, 3])
    nodes = []
    for k in range(n):
        if k == 0:
            parent = None
        elif shape == "chain":
            parent = k - 1 if r.random() < 0.85 else r.randrange(k)
        elif shape == "star":
            parent = 0 if r.random() < 0.85 else r.randrange(k)
        elif shape == "two":
            parent = 0 if k < 4 else r.randrange(1, min(k, 4))
        elif shape == "recent":
            parent = r.randrange(max(0, k - 3), k)
        else:
            parent = r.randrange(k)
        if k > 0 and r.random() < 0.2:
            aliases = None  # inherit the attribute
        else:
            aliases = sorted(r.sample(POOL, r.choice([0, 1, 1, 2, 3])))
        nodes.append(dict(k=k, parent=parent, aliases=aliases))
    cuts = sorted(r.sample(range(1, n + 1), min(nphase - 1, n))) if nphase > 1 else []
    cuts = sorted(set(cuts + [n]))
    phases, lo = [], 0
    for hi in cuts:
        created = list(range(hi))
        qs = []
        for _ in range(r.randint(3, 8)):
            root = 0 if r.random() < 0.5 else r.choice(created)
            alias = r.choice(POOL) if r.random() < 0.8 else r.choice(UNKNOWN)
            qs.append(dict(q="resolve", root=root, alias=alias))
        for _ in range(r.randint(2, 5)):
            qs.append(dict(q="fromarg", fac=0 if r.random() < 0.5 else r.choice(created), arg=gen_arg(r, created)))
        # one query per alias of the pool from the root, with arguments the resolved class's constructor rejects
        for alias in POOL[: 2 + len(created) % 3]:
            qs.append(dict(q="resolve_boom", root=0, alias=alias))
        phases.append(dict(create=nodes[lo:hi], queries=qs))
        lo = hi
    return dict(root=0, phases=phases)


VALS = [1, 0, 2.5, None, True, "v", "a", "", [1, 2], {"z": 1}, []]


def gen_arg(r, created):
    u = r.random()
    if u < 0.15:
        return dict(t="inst", cls=r.choice(created))
    if u < 0.35:
        return dict(t="str", s=r.choice(POOL) if r.random() < 0.8 else r.choice(UNKNOWN))
    if u < 0.93:
        items = []
        mode = r.choice(["alias", "alias", "name", "both", "both", "neither"])
        def aval():
            v = r.random()
            if v < 0.8:
                return r.choice(POOL)
            if v < 0.9:
                return r.choice(UNKNOWN)
            return r.choice([3, None, [1], {"k": 1}, 2.5, True])
        if mode in ("alias", "both"):
            items.append(["alias", aval()])
        if mode in ("name", "both"):
            items.append(["name", aval()])
        for k in r.sample(["p", "q", "num_filts", "Alias", "names", "alia"], r.choice([0, 0, 1, 2, 3])):
            items.append([k, r.choice(VALS)])
        r.shuffle(items)
        return dict(t="map", kind=r.choice(["dict", "dict", "ordered", "proxy", "ro"]), items=items)
    return dict(t="other", v=r.choice([3, None, 2.5]))


def tree_tokens(t):
    al = ",".join(t["aliases"]) if t["aliases"] else "-"
    return "( %d 1 %s %s)" % (t["id"], al, "".join(tree_tokens(s) + " " for s in t["subs"]))


def find_node(t, k):
    if t["id"] == k:
        return t
    for s in t["subs"]:
        f = find_node(s, k)
        if f is not None:
            return f
    return None


def members(t):
    res = [t]
    for s in t["subs"]:
        res += members(s)
    return res


def expected_winner(t, alias):
    """Independent statement of the search rule: below a class, the hierarchies of its subclasses are
    consulted from the last registered to the first, and the class itself only after all of them."""
    for s in reversed(t["subs"]):
        w = expected_winner(s, alias)
        if w is not None:
            return w
    return t["id"] if alias in t["aliases"] else None


def wire_ok(s):
    """can be an alias / key token of the line protocol"""
    return isinstance(s, str) and not any(ch.isspace() or ch in "=," for ch in s)


def wire_val(s):
    return isinstance(s, str) and not any(ch.isspace() for ch in s)


def arg_tokens(a, after_items=None):
    if a["t"] == "inst":
        return "inst %d 7" % a["cls"]
    if a["t"] == "str":
        return "str s:" + a["s"]
    if a["t"] == "map":
        items = after_items if after_items is not None else [[k, enc(v)] for k, v in a["items"]]
        return ("map " + " ".join("%s=%s" % (k, v) for k, v in items)).strip()
    return "other"


def kw_str(kw):
    return "".join(" %s=%s" % (k, v) for k, v in kw)


# correspondence of arguments outside the property's quantifier (foreign instance, neither str nor mapping,
# mapping without 'alias'/'name', alias value that is not a str): both sides must raise and the caller's argument
# must be left alone; *which* exception is compared too, but a difference there is only counted
OUT_OF_SCOPE = "fromArg vs alias_factory_subclass_from_arg (argument outside the property's quantifier)"

ORACLES = {
    "alias_resolves": "every alias of every concrete class resolves, from its abstract family, to that class",
    "published_alias": "a documented alias builds the documented class (JSON configurations written against the "
                       "published names keep building the same objects)",
    "unknown_alias": "an alias no class of the family carries raises ValueError",
    "last_registered_wins": "when classes share an alias, the carrier found first in (later-registered sibling "
                            "branches first, descendants before ancestors) is built - never an earlier sibling / ancestor",
    "instance_unchanged": "alias_factory_subclass_from_arg returns an instance of the factory class unchanged (same object)",
    "str_default_args": "a string is an alias and the class is built with default arguments",
    "alias_over_name": "a mapping is keyword arguments; 'alias' takes precedence over 'name'; the rest is passed on",
    "mapping_unmodified": "the mapping given is never modified",
    "features_bit_identical": "a computer built from a nested JSON-round-tripped configuration computes bit-identical "
                              "features to one assembled from explicitly constructed objects",
}


def synthetic(ctx, driver):
    r = ctx.rng
    nf = ctx.scale(400, 12000)
    forests = [gen_forest(r, ctx.tier == "thorough" or ctx.search_mode) for _ in range(nf)]
    forests[:0] = CORPUS_FORESTS
    results = run_worker(forests)
    lines, expect = [], []  # driver lines and (case, impl string, what)
    for fi, (forest, phases_out) in enumerate(zip(forests, results)):
        for pi, (phase, pout) in enumerate(zip(forest["phases"], phases_out)):
            tree = pout["tree"]
            toks = tree_tokens(tree)
            ctx.count("hierarchy_size_%02d" % min(len(members(tree)), 25))
            spec_upto = dict(root=forest["root"], phases=[dict(create=p["create"], queries=[]) for p in forest["phases"][: pi + 1]])
            if pi > 0:
                ctx.count("phase_after_late_registration")
            for q, ans in zip(phase["queries"], pout["answers"]):
                case = dict(kind="synthetic", forest=spec_upto, query=q)
                if q["q"] == "resolve_boom":
                    # the class that wins the alias rejects its arguments (a ValueError of its own): explicit construction
                    # of that class raises exactly this, so must the alias route - never an instance of another carrier
                    ctx.case(case, kind="resolve_ctor_raises")
                    sub = find_node(tree, q["root"])
                    want = expected_winner(sub, q["alias"])
                    exp = "ValueError" if want is None else "CtorError"
                    got = ("instance of class %s" % ans["ok"]) if "ok" in ans else ans.get("err")
                    # what is demanded: no object comes back (how the failure is reported - the constructor's own
                    # exception or one wrapping it - is not the property's business); an unknown alias is a ValueError
                    if ("ok" in ans) or (want is None and got != "ValueError"):
                        ctx.violation(case, exp, got, "when the constructor of the class that wins the alias rejects its arguments, from_alias fails too "
                                      "(the config route builds what explicit construction builds, or fails as it fails) - it never builds another carrier of the alias",
                                      tags=dict(clause="ctor_exception_propagates", where="synthetic"))
                    continue
                if q["q"] == "resolve":
                    ctx.case(case, kind="resolve")
                    sub = find_node(tree, q["root"])
                    carriers = [m["id"] for m in members(sub) if q["alias"] in m["aliases"]]
                    want = expected_winner(sub, q["alias"])
                    got = ans.get("ok", "err:" + ans.get("err", "?"))
                    if len(carriers) >= 2:
                        ctx.count("shared_alias_query")
                        if want != max(carriers):
                            ctx.count("winner_not_globally_last_registered")
                    ctx.count("resolve_unknown" if want is None else "resolve_found")
                    if want is None:
                        if ans.get("err") != "ValueError":
                            ctx.violation(case, "ValueError", got, ORACLES["unknown_alias"], tags=dict(clause="unknown_alias", where="synthetic"))
                    elif ans.get("ok") != want:
                        ctx.violation(case, want, got, ORACLES["last_registered_wins"] if len(carriers) >= 2 else ORACLES["alias_resolves"],
                                      tags=dict(clause="last_registered_wins" if len(carriers) >= 2 else "alias_resolves", where="synthetic"))
                    elif len(carriers) >= 2 and ans.get("ok") != max(carriers):
                        # the property read literally: of all classes sharing the alias the one *registered last*
                        # (ids are creation order) wins.  The implementation's documented search order (later
                        # sibling branches first, descendants before ancestors) deviates when the last-registered
                        # carrier sits below an *earlier* sibling: a genuine, recorded finding (KNOWN_FINDINGS F16).
                        ctx.violation(case, max(carriers), got,
                                      "when classes share an alias the one registered last (globally) is built",
                                      tags=dict(clause="last_registered_global", deviation="dfs_sibling_order"))
                    elif ans.get("kw") or ans.get("nargs"):
                        ctx.violation(case, "no arguments", ans, "from_alias(alias) passes no arguments", tags=dict(clause="from_alias_args"))
                    impl = ("ok %d" % ans["ok"]) if "ok" in ans else "err:" + ans["err"]
                    if not wire_ok(q["alias"]):
                        ctx.count("not_on_wire")
                        continue
                    lines.append("resolve %s %d s:%s" % (toks, q["root"], q["alias"]))
                    expect.append((case, impl, "resolve vs from_alias"))
                else:
                    a = q["arg"]
                    ctx.case(case, kind="fromarg_" + a["t"])
                    sub = find_node(tree, q["fac"])
                    fam = {m["id"] for m in members(sub)}
                    got = ans
                    in_scope = True  # inside the property's quantifier (instance of the family | str | mapping with a str alias)
                    # ---- property oracle
                    if a["t"] == "inst":
                        if a["cls"] in fam:
                            if not ans.get("same"):
                                ctx.violation(case, "same object", got, ORACLES["instance_unchanged"], tags=dict(clause="instance_unchanged"))
                        else:
                            in_scope = False
                            ctx.count("out_of_scope")  # instance of a foreign class: not covered by the property
                    elif a["t"] == "str":
                        want = expected_winner(sub, a["s"])
                        if want is None:
                            if ans.get("err") != "ValueError":
                                ctx.violation(case, "ValueError", got, ORACLES["unknown_alias"], tags=dict(clause="unknown_alias", where="fromarg"))
                        elif "new" in ans and ans["new"] != want and ans["new"] in fam:
                            ctx.violation(case, dict(new=want, kw=[]), got, ORACLES["last_registered_wins"], tags=dict(clause="last_registered_wins", where="fromarg_str"))
                        elif ans.get("new") != want or ans.get("kw") or ans.get("nargs"):
                            ctx.violation(case, dict(new=want, kw=[]), got, ORACLES["str_default_args"], tags=dict(clause="str_default_args"))
                    elif a["t"] == "map":
                        if not ans.get("unchanged") or ans.get("after") != [[k, enc(v)] for k, v in a["items"]]:
                            ctx.violation(case, a["items"], ans.get("after"), ORACLES["mapping_unmodified"], tags=dict(clause="mapping_unmodified"))
                        keys = [k for k, _ in a["items"]]
                        key = "alias" if "alias" in keys else ("name" if "name" in keys else None)
                        ctx.count("map_key_%s%s" % (key, "_both" if ("alias" in keys and "name" in keys) else ""))
                        if key is None:
                            in_scope = False
                            ctx.count("out_of_scope")  # no alias at all: the property does not say what happens
                        else:
                            av = dict(a["items"])[key]
                            if isinstance(av, str):
                                want = expected_winner(sub, av)
                                rest = sorted([k, enc(v)] for k, v in a["items"] if k != key)
                                if want is None:
                                    if ans.get("err") != "ValueError":
                                        ctx.violation(case, "ValueError", got, ORACLES["unknown_alias"], tags=dict(clause="unknown_alias", where="fromarg_map"))
                                elif "new" in ans and ans["new"] != want and ans["new"] in fam:
                                    ctx.violation(case, dict(new=want, kw=rest), got, ORACLES["last_registered_wins"], tags=dict(clause="last_registered_wins", where="fromarg_map"))
                                elif ans.get("new") != want or sorted(ans.get("kw", [])) != rest or ans.get("nargs"):
                                    ctx.violation(case, dict(new=want, kw=rest), got, ORACLES["alias_over_name"], tags=dict(clause="alias_over_name"))
                            else:
                                in_scope = False
                                ctx.count("out_of_scope")  # alias value that is not a string
                    else:
                        in_scope = False
                        ctx.count("out_of_scope")
                    # ---- correspondence
                    if (a["t"] == "map" and not all(wire_ok(k) and k and wire_val(v) for k, v in ans.get("after", []))) or (
                            a["t"] == "str" and not wire_ok(a["s"])):
                        ctx.count("not_on_wire")
                        continue
                    if "same" in ans:
                        res = "same 7"
                    elif "new" in ans:
                        res = "new %d%s" % (ans["new"], kw_str(ans["kw"]))
                    else:
                        res = "err:" + ans["err"]
                    impl = res + " | " + arg_tokens(a, ans.get("after"))
                    ctx.count("fromarg_result_" + res.split()[0])
                    lines.append("fromarg %s %d %s" % (toks, q["fac"], arg_tokens(a)))
                    expect.append((case, impl, "fromArg vs alias_factory_subclass_from_arg" if in_scope else OUT_OF_SCOPE))
    return lines, expect


# a few fixed hierarchies that must always be covered (shadowing, deep chain, late registration, inheritance)
CORPUS_FORESTS = [
    # two siblings share an alias; a subclass without own aliases inherits (and therefore shadows) its parent's
    dict(root=0, phases=[dict(create=[dict(k=0, parent=None, aliases=[]), dict(k=1, parent=0, aliases=["a", "b"]),
                                      dict(k=2, parent=0, aliases=["a"]), dict(k=3, parent=1, aliases=None)],
                              queries=[dict(q="resolve", root=0, alias=x) for x in ["a", "b", "c", ""]]
                              + [dict(q="resolve", root=1, alias="a"),
                                 dict(q="fromarg", fac=0, arg=dict(t="map", kind="dict", items=[["name", "b"], ["alias", "a"], ["p", 1]])),
                                 dict(q="fromarg", fac=0, arg=dict(t="map", kind="dict", items=[["p", [1, 2]], ["name", "b"]])),
                                 dict(q="fromarg", fac=0, arg=dict(t="map", kind="proxy", items=[["p", 1]])),
                                 dict(q="fromarg", fac=1, arg=dict(t="inst", cls=3)),
                                 dict(q="fromarg", fac=1, arg=dict(t="inst", cls=2)),
                                 dict(q="fromarg", fac=0, arg=dict(t="map", kind="dict", items=[["alias", [1]]])),
                                 dict(q="fromarg", fac=0, arg=dict(t="map", kind="dict", items=[["alias", 3]]))])]),
    # deep chain, every level re-declares the alias; then a late class under the root shadows nothing below
    dict(root=0, phases=[dict(create=[dict(k=0, parent=None, aliases=["a"])] + [dict(k=i, parent=i - 1, aliases=["a"]) for i in range(1, 7)],
                              queries=[dict(q="resolve", root=i, alias="a") for i in range(7)]),
                         dict(create=[dict(k=7, parent=0, aliases=["a"]), dict(k=8, parent=2, aliases=["a", "b"])],
                              queries=[dict(q="resolve", root=i, alias=x) for i in (0, 2, 3) for x in ("a", "b")])]),
    # late registration below an *earlier* sibling: R>A, R>B{x}, then A>A1{x}
    dict(root=0, phases=[dict(create=[dict(k=0, parent=None, aliases=[]), dict(k=1, parent=0, aliases=["a"]), dict(k=2, parent=0, aliases=["x"])],
                              queries=[dict(q="resolve", root=0, alias="x")]),
                         dict(create=[dict(k=3, parent=1, aliases=["x"])],
                              queries=[dict(q="resolve", root=0, alias="x"), dict(q="resolve", root=1, alias="x")])]),
]


# =====================================================================================================
# live registry (in-process): enumeration, unknown aliases, from_arg clauses
# =====================================================================================================


def family_classes():
    import importlib

    return [(name, getattr(importlib.import_module(mod), name), mod) for mod, name in FAMILIES]


def descendants(cls):
    res = [cls]
    for s in cls.__subclasses__():
        res += descendants(s)
    return res


def ctor_kwargs(cls):
    """keyword arguments for the parameters of cls.__init__ that have no default; None if unknown"""
    try:
        sig = inspect.signature(cls.__init__)
    except (TypeError, ValueError):
        return {}
    kw = {}
    for p in list(sig.parameters.values())[1:]:
        if p.kind in (p.VAR_POSITIONAL, p.VAR_KEYWORD) or p.default is not p.empty:
            continue
        if p.name not in FILL:
            return None
        kw[p.name] = FILL[p.name]
    return kw


def try_build(fam_cls, alias, kw):
    try:
        return type(fam_cls.from_alias(alias, **kw)), None
    except Exception as e:  # noqa
        return None, e


def qual(c):
    return c.__module__ + "." + c.__qualname__


def live_registry(ctx, driver_lines, expect):
    from pydrobert.speech.alias import AliasedFactory, alias_factory_subclass_from_arg

    r = ctx.rng
    fams = family_classes()
    all_aliases = set()
    for _, fc, _ in fams:
        for c in descendants(fc):
            all_aliases |= set(getattr(c, 'aliases', None) or ())
    for fname, fc, mod in fams:
        fam_aliases = set()
        for c in descendants(fc):
            fam_aliases |= set(getattr(c, 'aliases', None) or ())
            if inspect.isabstract(c):
                continue
            kw = ctor_kwargs(c)
            for a in sorted(getattr(c, 'aliases', None) or ()):
                case = dict(kind="registry", family=fname, cls=qual(c), alias=a)
                ctx.case(case, kind="registry_alias")
                if kw is None:
                    ctx.count("unconstructible")
                    ctx.gap_cases += 1
                    continue
                got, err = try_build(fc, a, kw)
                if got is not c:
                    ctx.violation(case, qual(c), qual(got) if got else "%s: %s" % (type(err).__name__, err),
                                  ORACLES["alias_resolves"], tags=dict(clause="alias_resolves", family=fname))
                if wire_ok(a):
                    driver_lines.append("registry.resolve %s s:%s" % (qual(fc), a))
                    expect.append((case, "ok " + qual(got) if got else "err:" + type(err).__name__, "generated registry vs live package"))
        # documented aliases
        for cname, als in PUBLISHED[fname].items():
            import importlib

            c = getattr(importlib.import_module(mod), cname, None)
            for a in als:
                case = dict(kind="published", family=fname, cls=cname, alias=a)
                ctx.case(case, kind="published_alias")
                kw = ctor_kwargs(c) if c is not None else None
                got, err = try_build(fc, a, kw or {})
                if c is None or got is not c:
                    ctx.violation(case, cname, qual(got) if got else "%s: %s" % (type(err).__name__, err),
                                  ORACLES["published_alias"], tags=dict(clause="published_alias", family=fname, alias=a))
        # unknown aliases
        cands = ["", " ", "nope", "MEL", "Mel", "stft ", "alias", "name"]
        cands += [a.upper() for a in sorted(fam_aliases)][:4] + [a[:-1] for a in sorted(fam_aliases)][:4]
        cands += [a + "x" for a in sorted(fam_aliases)][:3] + sorted(all_aliases - fam_aliases)
        cands += ["".join(r.choice("abcdefghijklmnopqrstuvwxyz_") for _ in range(r.randint(1, 9))) for _ in range(ctx.scale(10, 200))]
        for a in cands:
            if a in fam_aliases:
                continue
            case = dict(kind="unknown", family=fname, alias=a)
            ctx.case(case, kind="unknown_alias")
            try:
                obj = fc.from_alias(a)
                got = "returned " + qual(type(obj))
            except Exception as e:  # noqa
                got = type(e).__name__
            if got != "ValueError":
                ctx.violation(case, "ValueError", got, ORACLES["unknown_alias"], tags=dict(clause="unknown_alias", family=fname))
            if wire_ok(a):
                driver_lines.append("registry.resolve %s s:%s" % (qual(fc), a))
                expect.append((case, "err:" + got if not got.startswith("returned") else "ok " + got[9:], "generated registry vs live package"))
    # ---- alias_factory_subclass_from_arg on the real classes
    from pydrobert.speech import scales, filters, post, pre

    def check_map(fam, m, want_cls, clause="alias_over_name"):
        case = dict(kind="fromarg_live", family=fam.__name__, arg=m)
        ctx.case(case, kind="fromarg_live")
        snap = json.dumps(m, sort_keys=False)
        deep = copy.deepcopy(m)
        try:
            got = type(alias_factory_subclass_from_arg(fam, m)).__name__
        except Exception as e:  # noqa
            got = "%s" % type(e).__name__
        if got != want_cls:
            ctx.violation(case, want_cls, got, ORACLES[clause], tags=dict(clause=clause, where="live"))
        if m != deep or json.dumps(m, sort_keys=False) != snap:
            ctx.violation(case, deep, m, ORACLES["mapping_unmodified"], tags=dict(clause="mapping_unmodified", where="live"))

    # (only Deltas / Stack accept stray keywords, so only they can show precedence by *building*)
    check_map(post.PostProcessor, {"name": "cmvn", "alias": "stack", "num_vectors": 2}, "Stack")
    check_map(post.PostProcessor, {"alias": "cmvn", "name": "stack"}, "TypeError")  # Standardize(name='stack')
    check_map(post.PostProcessor, {"name": "stack", "num_vectors": 3}, "Stack")
    check_map(post.PostProcessor, {"alias": "deltas", "name": "stack", "num_deltas": 2}, "Deltas")
    check_map(post.PostProcessor, {"name": "deltas", "num_deltas": 2, "concatenate": False}, "Deltas")
    check_map(scales.ScalingFunction, {"alias": "linear", "low_hz": 2.0, "slope_hz": 3.0}, "LinearScaling")
    check_map(scales.ScalingFunction, {"name": "octave", "low_hz": 2.0}, "OctaveScaling")
    check_map(scales.ScalingFunction, {"alias": "mel", "name": "bark"}, "TypeError")  # 'name' is passed on to MelScaling
    check_map(scales.ScalingFunction, {"alias": "nope", "name": "bark"}, "ValueError", clause="unknown_alias")
    check_map(pre.PreProcessor, {"name": "preemph", "coeff": 0.5}, "Preemphasize")
    check_map(filters.WindowFunction, {"alias": "gamma", "order": 2, "peak": 0.5}, "GammaWindow")
    check_map(filters.LinearFilterBank, {"name": "tri", "scaling_function": {"name": "bark"}, "num_filts": 3}, "TriangularOverlappingFilterBank")
    for fname, fc, _ in fams:
        for c in descendants(fc):
            if inspect.isabstract(c) or not c.aliases:
                continue
            kw = ctor_kwargs(c)
            if kw is None:
                continue
            a = sorted(c.aliases)[0]
            case = dict(kind="fromarg_live", family=fname, cls=qual(c), alias=a)
            ctx.case(case, kind="fromarg_live")
            try:
                inst = c(**kw)
                same = alias_factory_subclass_from_arg(fc, inst)
                if same is not inst:
                    ctx.violation(case, "same object", repr(same), ORACLES["instance_unchanged"], tags=dict(clause="instance_unchanged", where="live"))
                if not kw:
                    byname = alias_factory_subclass_from_arg(fc, a)
                    if type(byname) is not c:
                        ctx.violation(case, qual(c), qual(type(byname)), ORACLES["str_default_args"], tags=dict(clause="str_default_args", where="live"))
                m = dict(kw, alias=a)
                snap = copy.deepcopy(m)
                bymap = alias_factory_subclass_from_arg(fc, m)
                if type(bymap) is not c:
                    ctx.violation(case, qual(c), qual(type(bymap)), ORACLES["alias_over_name"], tags=dict(clause="alias_over_name", where="live"))
                if m != snap:
                    ctx.violation(case, snap, m, ORACLES["mapping_unmodified"], tags=dict(clause="mapping_unmodified", where="live"))
            except Exception as e:  # noqa
                ctx.violation(case, "built", "%s: %s" % (type(e).__name__, e), ORACLES["alias_resolves"], tags=dict(clause="alias_resolves", where="fromarg_live"))


# =====================================================================================================
# nested JSON configuration vs explicit construction: bit-identical features
# =====================================================================================================


def spell(r, cls_key, params):
    """one of the JSON spellings of a component: 'alias' | {'alias':..,**params} | {'name':..,**params}"""
    fam, cname = cls_key
    alias = r.choice(PUBLISHED[fam][cname])
    if not params and r.random() < 0.5:
        return alias
    key = r.choice(["alias", "name"])
    items = [(key, alias)] + list(params.items())
    r.shuffle(items)
    return dict(items)


def gen_feature_case(r):
    rate = r.choice([2000, 4000, 8000])
    # scale
    sname = r.choice(["MelScaling", "BarkScaling", "LinearScaling", "OctaveScaling"])
    sparams = {}
    if sname == "LinearScaling":
        sparams = {"low_hz": r.choice([0.0, 20.0]), "slope_hz": r.choice([1.0, 2.0, 0.5])}
        if r.random() < 0.3:
            del sparams["slope_hz"]
    elif sname == "OctaveScaling":
        sparams = {"low_hz": r.choice([20.0, 50.0])}
    # bank
    bname = r.choice(["TriangularOverlappingFilterBank", "Fbank", "GaborFilterBank", "ComplexGammatoneFilterBank"])
    bparams = {"num_filts": r.randint(2, 6), "sampling_rate": rate, "low_hz": r.choice([100.0, 150.0, 60.0])}
    if r.random() < 0.4:
        bparams["high_hz"] = r.choice([rate * 0.4, rate * 0.45, None])
    if bname in ("TriangularOverlappingFilterBank", "Fbank") and r.random() < 0.4:
        bparams["analytic"] = r.choice([True, False])
    if bname in ("GaborFilterBank", "ComplexGammatoneFilterBank"):
        if r.random() < 0.4:
            bparams["scale_l2_norm"] = r.choice([True, False])
        if r.random() < 0.3:
            bparams["erb"] = r.choice([True, False])
    if bname == "ComplexGammatoneFilterBank":
        if r.random() < 0.4:
            bparams["order"] = r.choice([2, 3, 4])
        if r.random() < 0.3:
            bparams["max_centered"] = r.choice([True, False])
    # window
    wname = r.choice([None, "BartlettWindow", "BlackmanWindow", "HammingWindow", "HannWindow", "GammaWindow"])
    wparams = {}
    if wname == "GammaWindow" and r.random() < 0.6:
        wparams = {"order": r.choice([2, 4, 6]), "peak": r.choice([0.5, 0.75])}
    # computer
    cname = r.choice(["ShortTimeFourierTransformFrameComputer", "ShortIntegrationFrameComputer"])
    cparams = {"frame_shift_ms": r.choice([5, 10, 4.0])}
    for k, vals in (("frame_style", ["causal", "centered", None]), ("include_energy", [True, False]),
                    ("pad_to_nearest_power_of_two", [True, False]), ("use_log", [True, False]), ("use_power", [True, False])):
        if r.random() < 0.4:
            cparams[k] = r.choice(vals)
    if cname.startswith("ShortTimeFourier"):
        if r.random() < 0.5:
            cparams["frame_length_ms"] = r.choice([20, 25, 12.5, None])
        if r.random() < 0.2:
            cparams["kaldi_shift"] = r.choice([True, False])
    return dict(scale=[sname, sparams], bank=[bname, bparams], window=[wname, wparams], computer=[cname, cparams],
                n=r.choice([0, 1, 37, 200, 333, 600]), sigseed=r.randrange(1 << 30), integer=r.random() < 0.3,
                spell_seed=r.randrange(1 << 30))


def json_config(fc):
    """the nested configuration of a feature case, in one random spelling (deterministic from spell_seed)"""
    import random

    r = random.Random(fc["spell_seed"])
    sname, sparams = fc["scale"]
    bname, bparams = fc["bank"]
    wname, wparams = fc["window"]
    cname, cparams = fc["computer"]
    bp = dict(bparams)
    if bname != "Fbank":
        bp["scaling_function"] = spell(r, ("ScalingFunction", sname), sparams)
    cp = dict(cparams)
    cp["bank"] = spell(r, ("LinearFilterBank", bname), bp)
    if wname is not None:
        cp["window_function"] = spell(r, ("WindowFunction", wname), wparams)
    cfg = spell(r, ("FrameComputer", cname), cp)
    return cfg


def explicit_computer(fc):
    from pydrobert.speech import scales, filters, compute

    sname, sparams = fc["scale"]
    bname, bparams = fc["bank"]
    wname, wparams = fc["window"]
    cname, cparams = fc["computer"]
    bp = dict(bparams)
    if bname != "Fbank":
        bp["scaling_function"] = getattr(scales, sname)(**sparams)
    bank = getattr(filters, bname)(**bp)
    cp = dict(cparams)
    if wname is not None:
        cp["window_function"] = getattr(filters, wname)(**wparams)
    return getattr(compute, cname)(bank, **cp)


def signal(fc):
    g = np.random.default_rng(fc["sigseed"])
    if fc["integer"]:
        return g.integers(-1000, 1000, fc["n"]).astype(np.float64)
    return g.standard_normal(fc["n"])


def run_feature_case(fc):
    """returns (status, detail, cfg) with status in {'same','both_raise','diff'}"""
    from pydrobert.speech.alias import alias_factory_subclass_from_arg
    from pydrobert.speech import compute

    cfg = json.loads(json.dumps(json_config(fc)))
    snap = json.dumps(cfg)
    x = signal(fc)
    res = []
    for how in ("json", "explicit"):
        try:
            if how == "json":
                comp = alias_factory_subclass_from_arg(compute.FrameComputer, cfg)
            else:
                comp = explicit_computer(fc)
            y = comp.compute_full(x.copy())
            res.append(("ok", type(comp).__name__, type(comp.bank).__name__, y))
        except Exception as e:  # noqa
            res.append(("err", type(e).__name__, str(e)[:200], None))
    mutated = json.dumps(cfg) != snap
    (ja, jb, jc, jy), (ea, eb, ec, ey) = res
    if ja == "err" and ea == "err":
        return ("both_raise" if jb == eb else "diff"), "json: %s %s / explicit: %s %s" % (jb, jc, eb, ec), cfg, mutated
    if ja != ea:
        return "diff", "json: %s %s %s / explicit: %s %s %s" % (ja, jb, jc, ea, eb, ec), cfg, mutated
    if (jb, jc) != (eb, ec):
        return "diff", "classes differ: json %s/%s explicit %s/%s" % (jb, jc, eb, ec), cfg, mutated
    if jy.shape != ey.shape or jy.dtype != ey.dtype or jy.tobytes() != ey.tobytes():
        d = "shape %s/%s dtype %s/%s" % (jy.shape, ey.shape, jy.dtype, ey.dtype)
        if jy.shape == ey.shape and jy.size:
            d += " max|diff|=%r" % float(np.nanmax(np.abs(jy - ey)))
        return "diff", d, cfg, mutated
    return "same", "%s frames x %s coeffs" % jy.shape if jy.ndim == 2 else str(jy.shape), cfg, mutated


def features(ctx):
    import warnings

    warnings.simplefilter("ignore")  # RuntimeWarnings of degenerate banks (same on both sides)
    r = ctx.rng
    n = ctx.scale(400, 12000)
    features_live_threshold(ctx)
    for i in range(n):
        if ctx.out_of_time():
            ctx.note("features: stopped after %d cases (time)" % i)
            break
        fc = gen_feature_case(r)
        case = dict(kind="features", fc=fc)
        status, detail, cfg, mutated = run_feature_case(fc)
        ctx.case(case, kind="features_" + fc["computer"][0][:9] + "_" + fc["bank"][0][:5])
        ctx.count("features_" + status)
        if status == "diff":
            ctx.violation(dict(case, config=cfg), "bit-identical features", detail, ORACLES["features_bit_identical"],
                          tags=dict(clause="features_bit_identical", computer=fc["computer"][0], bank=fc["bank"][0]))
        if mutated:
            ctx.violation(dict(case, config=cfg), "configuration unchanged", "modified", ORACLES["mapping_unmodified"],
                          tags=dict(clause="mapping_unmodified", where="nested_config"))


LIVE_CONFIGS = [
    {"name": "si", "bank": {"name": "gabor", "scaling_function": "mel", "num_filts": 5, "sampling_rate": 8000}, "frame_shift_ms": 5.0},
    {"name": "stft", "bank": {"name": "gabor", "scaling_function": "bark", "num_filts": 4, "sampling_rate": 8000},
     "frame_shift_ms": 5.0, "frame_style": "causal"},
    {"name": "stft", "bank": {"name": "gammatone", "scaling_function": "mel", "num_filts": 4, "sampling_rate": 8000}, "frame_shift_ms": 10.0},
    {"name": "si", "bank": {"name": "gammatone", "scaling_function": "bark", "num_filts": 3, "sampling_rate": 8000, "order": 2},
     "frame_shift_ms": 2.0},
]


def explicit_from_config(cfg):
    """the explicit twin of a LIVE_CONFIGS entry: every object constructed by calling its class"""
    from pydrobert.speech import compute, filters

    b = cfg["bank"]
    b = dict(name=b) if isinstance(b, str) else dict(b)
    cls = {"gabor": filters.GaborFilterBank, "gammatone": filters.ComplexGammatoneFilterBank}[b.pop("name")]
    sf = b.pop("scaling_function", None)
    bank = cls(sf, **b) if sf is not None else cls(**b)
    kw = {k: v for k, v in cfg.items() if k not in ("name", "bank")}
    return {"si": compute.SIFrameComputer, "stft": compute.STFTFrameComputer}[cfg["name"]](bank, **kw)


def live_threshold_run(cfg, thresholds):
    """build the SAME configuration once per threshold value, in this order, in this process; per value one line
    'thr=..: same | diff (...)' comparing the config route with the explicit twin"""
    from pydrobert.speech import compute, config
    from pydrobert.speech.alias import alias_factory_subclass_from_arg

    old = config.EFFECTIVE_SUPPORT_THRESHOLD
    lines = []
    x = np.random.RandomState(5).randn(1500)
    try:
        for thr in thresholds:
            config.EFFECTIVE_SUPPORT_THRESHOLD = thr
            try:
                a = alias_factory_subclass_from_arg(compute.FrameComputer, json.loads(json.dumps(cfg)))
                b = explicit_from_config(cfg)
                ya, yb = a.compute_full(x.copy()), b.compute_full(x.copy())
                same = (list(a.bank.supports) == list(b.bank.supports) and a.frame_length == b.frame_length
                        and ya.shape == yb.shape and ya.tobytes() == yb.tobytes())
                lines.append("thr=%g: %s" % (thr, "same" if same else "diff (config route: frame_length %d, %s frames; explicit: frame_length %d, %s frames)"
                                                 % (a.frame_length, ya.shape[0], b.frame_length, yb.shape[0])))
            except Exception as e:  # noqa
                lines.append("thr=%g: diff (%s: %s)" % (thr, type(e).__name__, str(e)[:120]))
    finally:
        config.EFFECTIVE_SUPPORT_THRESHOLD = old
    return lines


def features_live_threshold(ctx):
    """`EFFECTIVE_SUPPORT_THRESHOLD` is a documented configuration constant read when a bank is built: the same JSON
    configuration built again after the constant was changed must again equal its explicit twin (a configuration is a
    description of objects, not a handle to objects built earlier)"""
    from pydrobert.speech import config

    base = float(config.EFFECTIVE_SUPPORT_THRESHOLD)
    thresholds = [base, 1e-2, 1e-5, base]
    for cfg in LIVE_CONFIGS:
        case = dict(kind="features_live_threshold", config=cfg, thresholds=thresholds)
        ctx.case(case, kind="features_live_threshold")
        lines = live_threshold_run(cfg, thresholds)
        bad = [l for l in lines if not l.endswith(": same")]
        if bad:
            ctx.violation(case, ["thr=%g: same" % t for t in thresholds], lines, ORACLES["features_bit_identical"] +
                          " - also when the configuration is built again after config.EFFECTIVE_SUPPORT_THRESHOLD changed",
                          tags=dict(clause="features_bit_identical", where="live_threshold"))


# =====================================================================================================


def run(ctx, driver):
    lines, expect = synthetic(ctx, driver)
    live_registry(ctx, lines, expect)
    if driver is not None:
        outs = driver.run(lines)
        ctx.corr_lines += len(lines)
        ctx.count("correspondence_lines", len(lines))
        for (case, impl, what), o in zip(expect, outs):
            if o != impl:
                if what is OUT_OF_SCOPE and o.startswith("err:") and impl.startswith("err:") \
                        and o.split(" | ", 1)[1:] == impl.split(" | ", 1)[1:]:
                    ctx.count("out_of_scope_exception_class_differs")
                    continue
                ctx.mismatch(case, o, impl, what)
    features(ctx)


def run_oracle_only(ctx):
    run(ctx, None)


def replay(rp):
    c = rp.get("case", {})
    print("case:", common.canon(c))
    kind = c.get("kind")
    drv = common.Driver(PROP)
    if kind == "synthetic":
        forest = copy.deepcopy(c["forest"])
        forest["phases"][-1]["queries"] = [c["query"]]
        out = run_worker([forest])[0][-1]
        tree, ans, q = out["tree"], out["answers"][0], c["query"]
        print("hierarchy (as introspected):", json.dumps(tree))
        print("impl:", json.dumps(ans))
        if q["q"] == "resolve_boom":
            print("oracle: class winning the alias:", expected_winner(find_node(tree, q["root"]), q["alias"]),
                  "- its constructor raises CtorError (a ValueError) for these arguments; from_alias must let it through")
            print("oracle:", rp.get("oracle"), "| expected", rp.get("expected"), "| got", rp.get("got"))
            return 0
        if q["q"] == "resolve":
            print("oracle: expected winner", expected_winner(find_node(tree, q["root"]), q["alias"]))
            line = "resolve %s %d s:%s" % (tree_tokens(tree), q["root"], q["alias"])
        else:
            line = "fromarg %s %d %s" % (tree_tokens(tree), q["fac"], arg_tokens(q["arg"]))
        try:
            print("model:", drv.run([line])[0])
        except Exception as e:  # noqa
            print("model: driver unavailable (%s)" % e)
    elif kind in ("registry", "published", "unknown"):
        fams = {n: (fc, mod) for n, fc, mod in family_classes()}
        fc, _ = fams[c["family"]]
        try:
            kw = {}
            for d in descendants(fc):
                if c["alias"] in d.aliases:
                    kw = ctor_kwargs(d) or {}
            print("impl: built", qual(type(fc.from_alias(c["alias"], **kw))))
        except Exception as e:  # noqa
            print("impl: %s: %s" % (type(e).__name__, e))
        try:
            print("model (generated registry):", drv.run(["registry.resolve %s s:%s" % (qual(fc), c["alias"])])[0])
        except Exception as e:  # noqa
            print("model: driver unavailable (%s)" % e)
    elif kind == "fromarg_live":
        from pydrobert.speech.alias import alias_factory_subclass_from_arg

        fams = {n: fc for n, fc, _ in family_classes()}
        if "arg" in c:
            m = copy.deepcopy(c["arg"])
            try:
                print("impl: built", type(alias_factory_subclass_from_arg(fams[c["family"]], m)).__name__)
            except Exception as e:  # noqa
                print("impl: %s: %s" % (type(e).__name__, e))
            print("mapping afterwards:", m)
    elif kind == "features_live_threshold":
        for line in live_threshold_run(c["config"], c["thresholds"]):
            print("impl:", line)
    elif kind == "features":
        status, detail, cfg, mutated = run_feature_case(c["fc"])
        print("config:", json.dumps(cfg))
        print("impl: %s (%s)%s" % (status, detail, " CONFIG MODIFIED" if mutated else ""))
    print("oracle:", rp.get("oracle"), "| expected", rp.get("expected"), "| got", rp.get("got"))
    return 0

"""C16 - Standardize normalises with exactly the statistics it was given."""
import math
import os
import shutil
import tempfile
import warnings
from fractions import Fraction

import numpy as np

from . import common

PROP = "C16"
MODULES = ["PdsVerif.Props.StdArithTie", "PdsVerif.Props.StatsValidTie", "PdsVerif.Props.C16", "PdsVerif.Lemmas.StandardizeView", "PdsVerif.Lemmas.StandardizeBasic"]
MODEL_MODULES = ["PdsVerif.Model.Standardize", "PdsVerif.Model.StandardizeDrv"]
REQUIRED = [
    "PdsVerif.C16." + n
    for n in """acc_additive acc_perm run_eq_statsOf acc_tensor_eq_vectors same_data_same_stats
    same_data_same_transform apply_formula apply_tensor_eq_vectors local_mean_zero local_var_one
    local_var_one_real local_mean_zero_real specScale_real dim_mismatch_accumulate dim_mismatch_apply
    dim_mismatch_apply_tensor result_dtype_f64 not_in_place_pure accumulate_tensor_eq apply_tensor_formula
    accumulate_tensor_as_vectors""".split()
] + [
    "PdsVerif.Model.Standardize." + n
    for n in "vectorsAlong_spec vectorsAlong_isSome unview_vectorsAlong unview_spec view_spec ravel_split colSum_get".split()
] + [
    "PdsVerif.StdArithTie." + n
    for n in "accVec_fields accTensor_fields means_eq varOf_eq scales_eq affine_eq affine_get local_mean_eq".split()
] + ["PdsVerif.StatsValidTie.valid_eq_gen"]


def translate(repo):
    """element-wise statements of Standardize (post.py) -> Generated/StdArith.lean (theorems: Props/StdArithTie.lean)"""
    from .translate import standardize, statsvalid
    files = dict(standardize.generate(repo))
    # which flat arrays are accepted as given statistics -> Generated/StatsValid.lean (Props/StatsValidTie.lean)
    files.update(statsvalid.generate(repo))
    return files

RULE = (
    "a case is (data set of N<=40 feature vectors of dimension F<=6; two independent histories over it = random "
    "partitions of a random permutation into accumulate calls, each a 1-D vector or a rank 2-4 tensor along a random "
    "(possibly negative) axis, C-contiguous or a strided view; dtype f64/f32/i32/i16; norm_var; a probe vector/tensor; "
    "in_place). Data modes: small integers (float arithmetic exact: compared exactly), log-energy-like negative "
    "floats, large (1e6) and small (1e-6) scales, constant columns (zero variance), mixed. Also local (no statistics) "
    "probes, dimension mismatches, empty arrays. Distinct by content; all non-trivial."
)
TRUSTED = [
    "translator harness/translate/standardize.py: the element-wise statements of _accumulate_vector/_tensor and _apply_vector/_tensor "
    "-> Generated/StdArith.lean (scalar function per coefficient); Props/StdArithTie.lean shows the array model applies exactly these",
    "NumPy reduction semantics named by the model: t.sum(axis=other_axes) / t.mean / broadcasting along `axis` are the "
    "coefficient-wise operations on the strided feature vectors `vectorsAlong` (exercised by correspondence on every rank<=4 and axis)",
    "the statistics matrix is observed through the public `save('*.npy')` + `np.load` (and through `apply`)",
    "binary64 decoding in the driver (`ratOfBits`), Float.sqrt for `** 0.5`, |v| <= 1e-8 for np.isclose(v, 0)",
]
ASSUMPTIONS = [
    "theorems are over exact fields (accumulate: any commutative semiring); float round-off, in particular cancellation in "
    "E[x^2]-mu^2, is only sampled (tolerance scaled by the measured condition number E[x^2]/var)",
    "local_var_one needs var != 0, sqrt(var)^2 = var and the isclose(var,0) replacement not firing (over R: var > 0)",
    "np.isclose threshold behaviour: coefficients with variance within a decade of 1e-8 are excluded from value comparison (counted)",
    "a history that raised is not continued (the object after a failed accumulate is outside the property)",
]
LEVEL_TEXT = (
    "Full proof (any commutative semiring / field; reals for sqrt): closed form of every accumulate history, additivity, "
    "permutation invariance, tensor = its feature vectors (any rank/axis via the strided view, with view/unview inverse and "
    "row-major stride lemma), apply formula for vector and tensor paths incl. the zero-variance branch, local mean 0 / "
    "variance 1, dimension-mismatch ValueError, float64 tag, purity. Tie: the per-coefficient arithmetic of accumulate / apply (vector, tensor, local) is regenerated from post.py on "
    "every run and proved equal to the model's (StdArithTie); exact-rational and Float correspondence through "
    "accumulate/apply/save for the array plumbing."
)
LEVEL_NOTE = (
    "Trusted: Lean kernel, std axioms, NumPy axis-reduction/broadcast semantics as the strided feature-vector view "
    "(correspondence on all ranks<=4/axes), float round-off sampled only (condition-number-scaled tolerance)."
)
TECHNIQUE = "Lean 4 proof over an executable model polymorphic in the number type (per-coefficient arithmetic regenerated from post.py) + Rat/Float correspondence"

EPS = 2.0 ** -52
DTYPES = {"f64": np.float64, "f32": np.float32, "i32": np.int32, "i16": np.int16}


def post():
    from pydrobert.speech import post as p

    return p


# ---- building arrays and wire lines -----------------------------------------------------------


def build_array(X, call, dtype):
    """X: (N,F) float64 array already representable in dtype. call: dict(idx, other|None, pos, axis, strided)."""
    vs = X[call["idx"]]
    if call["other"] is None:
        a = vs[0].astype(DTYPES[dtype])
        return a
    F = X.shape[1]
    other = call["other"]
    a = vs.reshape(list(other) + [F])
    a = np.moveaxis(a, -1, call["pos"])
    a = a.astype(DTYPES[dtype])
    if call.get("strided"):
        # same values, non-contiguous memory
        big = np.zeros(tuple(2 * d for d in a.shape), dtype=a.dtype)
        sl = tuple(slice(None, None, 2) for _ in a.shape)
        big[sl] = a
        a = big[sl]
    else:
        a = np.ascontiguousarray(a)
    return a


def wire_call(a, dtype, axis):
    flat = np.asarray(a, dtype=np.float64).ravel(order="C")
    if a.ndim == 1:
        return "v %s %d %s" % (dtype, a.shape[0], " ".join(common.fbits(v) for v in flat))
    return "t %s %d %d %s %s" % (
        dtype,
        axis,
        a.ndim,
        " ".join(str(d) for d in a.shape),
        " ".join(common.fbits(v) for v in flat),
    )


def wire_hist(arrays):
    return "%d %s" % (len(arrays), " ".join(wire_call(a, dt, ax) for a, dt, ax in arrays)) if arrays else "0"


# ---- generator -----------------------------------------------------------------------------------


def factorizations(r, k, parts):
    """random list of `parts` positive ints with product k"""
    dims = [1] * parts
    n = k
    p = 2
    fs = []
    while n > 1 and p * p <= n:
        while n % p == 0:
            fs.append(p)
            n //= p
        p += 1
    if n > 1:
        fs.append(n)
    for f in fs:
        dims[r.randrange(parts)] *= f
    return dims


def gen_data(r, mode, N, F, dtype):
    if dtype in ("i32", "i16") or mode == "int":
        X = np.array([[r.randint(-20, 20) for _ in range(F)] for _ in range(N)], dtype=np.float64)
    elif mode == "neg":
        X = np.array([[-r.uniform(5, 30) + r.gauss(0, 2) for _ in range(F)] for _ in range(N)])
    elif mode == "large":
        X = np.array([[r.gauss(0, 1) * 1e6 + r.choice([0, 1e6, -3e6]) for _ in range(F)] for _ in range(N)])
    elif mode == "small":
        X = np.array([[r.gauss(0, 1) * 1e-3 + r.choice([0, 1e-3, -2e-3]) for _ in range(F)] for _ in range(N)])
    elif mode == "tiny":
        X = np.array([[r.gauss(0, 1) * 1e-6 + r.choice([0, 1e-4, -3e-4]) for _ in range(F)] for _ in range(N)])
    elif mode == "const":
        X = np.array([[r.randint(-20, 20) for _ in range(F)] for _ in range(N)], dtype=np.float64)
        for j in range(F):
            if r.random() < 0.5:
                X[:, j] = r.randint(-9, 9)
    elif mode == "constfrac":
        # coefficients that never vary, at non-integer values (silence, a DC offset, a clipped log-energy floor):
        # sums, sums of squares and the variance they imply are then dominated by rounding
        X = np.array([[r.gauss(0, 1) for _ in range(F)] for _ in range(N)])
        for j in range(F):
            if r.random() < 0.7:
                X[:, j] = r.choice([0.1, 0.3, -0.7, 1e-3, -7.3, 1 / 3.0, 123.456])
    else:  # mixed
        sc = [10 ** r.uniform(-2, 3) for _ in range(F)]
        off = [r.choice([0.0, -1.0, 1.0]) * 10 ** r.uniform(-1, 2) for _ in range(F)]
        X = np.array([[r.gauss(0, 1) * sc[j] + off[j] for j in range(F)] for _ in range(N)])
    # make exactly representable in dtype
    X = X.astype(DTYPES[dtype]).astype(np.float64)
    return X


def gen_history(r, N, F, perm=None):
    order = list(range(N))
    r.shuffle(order)
    calls = []
    i = 0
    while i < N:
        u = r.random()
        if u < 0.35:
            k = 1
        else:
            k = min(N - i, r.choice([1, 2, 3, 4, 6, 8, 12]))
        idx = order[i : i + k]
        i += k
        if k == 1 and r.random() < 0.6:
            # a lone vector: its only axis is both -1 and 0
            calls.append(dict(idx=idx, other=None, pos=0, axis=r.choice([-1, -1, 0])))
            continue
        rank = r.choice([2, 2, 3, 4])
        other = factorizations(r, k, rank - 1)
        pos = r.randrange(rank)
        axis = pos if r.random() < 0.5 else pos - rank
        calls.append(dict(idx=idx, other=other, pos=pos, axis=axis, strided=r.random() < 0.2))
    return calls


def gen_probe(r, F, mode, dtype, allow_vec=True):
    """a probe array spec over fresh data of dimension F"""
    if allow_vec and r.random() < 0.3:
        k, other, pos, axis = 1, None, 0, r.choice([-1, -1, 0])
    else:
        rank = r.choice([2, 2, 3, 4])
        k = r.choice([1, 2, 3, 4, 6, 8])
        other = factorizations(r, k, rank - 1)
        pos = r.randrange(rank)
        axis = pos if r.random() < 0.5 else pos - rank
    P = gen_data(r, mode, k, F, dtype)
    return P, dict(idx=list(range(k)), other=other, pos=pos, axis=axis, strided=r.random() < 0.15)


def gen_case(r):
    mode = r.choice(["int", "int", "neg", "neg", "large", "small", "tiny", "const", "mixed"])
    dtype = r.choice(["f64", "f64", "f32", "i32", "i16"])
    F = r.choice([1, 2, 3, 4, 6])
    N = r.choice([1, 2, 3, 5, 8, 13, 24, 40])
    X = gen_data(r, mode, N, F, dtype)
    h1 = gen_history(r, N, F)
    h2 = gen_history(r, N, F)
    nv = r.random() < 0.6
    ip = r.random() < 0.3
    P, pc = gen_probe(r, F, mode, dtype)
    kind = "global"
    u = r.random()
    if u < 0.08:
        kind = "mismatch_apply"  # probe of another dimension
        P, pc = gen_probe(r, F + r.choice([1, 2]), mode, dtype)
    elif u < 0.14:
        kind = "mismatch_acc"
    elif u < 0.17:
        kind = "empty"
    return dict(
        kind=kind, mode=mode, dtype=dtype, F=F, nv=nv, ip=ip, X=X.tolist(), h1=h1, h2=h2, P=P.tolist(), probe=pc
    )


def gen_local_case(r):
    mode = r.choice(["int", "neg", "large", "small", "tiny", "const", "mixed"])
    dtype = r.choice(["f64", "f64", "f32", "i32", "i16"])
    F = r.choice([1, 2, 3, 4, 6])
    nv = r.random() < 0.6
    ip = r.random() < 0.3
    P, pc = gen_probe(r, F, mode, dtype, allow_vec=True)
    return dict(kind="local", mode=mode, dtype=dtype, F=F, nv=nv, ip=ip, X=[], h1=[], h2=[], P=P.tolist(), probe=pc)


# ---- implementation side --------------------------------------------------------------------------


def make_standardize(p, nv, case):
    """direct construction, or - for one case in four, chosen by the case itself - the documented configuration route
    (a mapping handed to alias_factory_subclass_from_arg)"""
    import zlib
    if zlib.crc32(common.canon(case).encode()) % 4 == 0:
        from pydrobert.speech.alias import alias_factory_subclass_from_arg
        return alias_factory_subclass_from_arg(p.PostProcessor, {"alias": "standardize", "norm_var": nv})
    return p.Standardize(norm_var=nv)


def impl_accumulate(case, hist_key, X):
    p = post()
    s = make_standardize(p, case["nv"], case)
    arrays = []
    for i, c in enumerate(case[hist_key]):
        a = build_array(X, c, case["dtype"])
        arrays.append((a, case["dtype"], c["axis"]))
        s.accumulate(a, axis=c["axis"])
        # interleave apply() calls with the accumulation (apply must not change, or cache, anything the
        # statistics depend on): "mean and variance are those of ALL vectors accumulated so far"
        if (i + case["F"]) % 2 == 0:
            try:
                with warnings.catch_warnings():
                    warnings.simplefilter("ignore")
                    with np.errstate(all="ignore"):
                        s.apply(np.ones(case["F"], dtype=np.float64))
            except Exception:
                pass
    return s, arrays


def impl_stats(s, tmpdir):
    """the statistics matrix through the public API"""
    path = os.path.join(tmpdir, "obs.npy")
    s.save(path)
    m = np.load(path)
    os.remove(path)
    return m


def impl_apply(s, a, axis, ip):
    before = a.copy()
    with warnings.catch_warnings():
        warnings.simplefilter("ignore")
        try:
            with np.errstate(all="ignore"):
                out = s.apply(a, axis=axis, in_place=ip)
        except Exception as e:  # canonical error class
            return dict(err=type(e).__name__)
    return dict(
        out=out,
        dtype=str(out.dtype),
        shape=list(out.shape),
        unchanged=bool(np.array_equal(before, a, equal_nan=True)),
        aliased=bool(np.shares_memory(out, a)),
    )


def fr(x):
    return Fraction(float(x))


def exact_moments(X):
    """per coefficient: exact sum, sumsq (Fractions)"""
    N, F = X.shape
    S = [sum((fr(X[i, j]) for i in range(N)), Fraction(0)) for j in range(F)]
    Q = [sum((fr(X[i, j]) ** 2 for i in range(N)), Fraction(0)) for j in range(F)]
    return S, Q


def expected_apply(S, Q, N, nv, V):
    """independent statement of the property: y = (x - mean)/std (two-pass-equivalent exact variance).
    Returns (Y, tol_rel per coefficient or None when excluded)."""
    F = len(S)
    mu = [S[j] / N for j in range(F)]
    var = [Q[j] / N - mu[j] ** 2 for j in range(F)]  # exact, so no cancellation
    scale = []
    tol = []
    for j in range(F):
        v = float(var[j])
        ex2 = float(Q[j] / N)
        if not nv:
            scale.append(1.0)
            tol.append(1e-9 + 16 * N * EPS)
            continue
        if v == 0.0:
            # exactly constant column: the float variance is round-off of size ~eps*E[x^2];
            # the property's "replace by 1" applies when that is <= 1e-8
            if ex2 * N * 8 * EPS < 1e-9:
                scale.append(1.0)
                tol.append(1e-9)
            else:
                scale.append(None)
                tol.append(None)
            continue
        kappa = ex2 / v if v > 0 else float("inf")
        err_abs_var = 8 * N * EPS * ex2  # absolute round-off of the float variance
        if v <= 1e-8 - err_abs_var:
            if v + err_abs_var < 1e-8:
                scale.append(1.0)
                tol.append(1e-9 + err_abs_var)
            else:
                scale.append(None)
                tol.append(None)
            continue
        if v < 1e-8 + 10 * err_abs_var or kappa > 1e9:
            scale.append(None)
            tol.append(None)
            continue
        scale.append(1.0 / math.sqrt(v))
        tol.append(max(1e-9, 64 * N * EPS * kappa))
    Y = np.empty(V.shape)
    for j in range(F):
        if scale[j] is None:
            Y[:, j] = np.nan
        else:
            Y[:, j] = (V[:, j] - float(mu[j])) * scale[j]
    return Y, tol, [float(m) for m in mu], scale


def vectors_of(out, pos):
    """feature vectors of an n-D result along axis position pos (independent of the model: NumPy moveaxis)"""
    if out.ndim == 1:
        return out.reshape(1, -1)
    return np.moveaxis(out, pos, -1).reshape(-1, out.shape[pos])


def close_arrays(a, b, tolj, scale=1.0):
    """a, b: (k,F); tolj per coefficient relative tolerance (None = excluded)"""
    bad = []
    for j, t in enumerate(tolj):
        if t is None:
            continue
        for i in range(a.shape[0]):
            x, y = float(a[i, j]), float(b[i, j])
            if not common.close(x, y, rel=t, abs_=t * scale):
                bad.append((i, j, x, y))
    return bad


# ---- one case: oracle + lines ----------------------------------------------------------------------


def slim(case):
    return case


def eval_case(ctx, case, tmpdir, lines, pending):
    p = post()
    dtype = case["dtype"]
    nv, ip = case["nv"], case["ip"]
    X = np.array(case["X"], dtype=np.float64).reshape(-1, case["F"]) if case["X"] else np.zeros((0, case["F"]))
    P = np.array(case["P"], dtype=np.float64)
    F = case["F"]
    N = X.shape[0]
    exact = case["mode"] in ("int", "const") or dtype in ("i32", "i16")
    ctx.case(dict(kind=case["kind"], mode=case["mode"], dtype=dtype, F=F, N=N, nv=nv, ip=ip, h1=len(case["h1"]),
                  probe=case["probe"]["other"], axis=case["probe"]["axis"], x0=case["X"][:1], p0=case["P"][:1]),
             kind=case["kind"])
    ctx.count("dtype_" + dtype)
    ctx.count("mode_" + case["mode"])
    probe = build_array(P, case["probe"], dtype)
    ctx.count("probe_rank_%d" % probe.ndim)
    paxis = case["probe"]["axis"]

    if case["kind"] == "local":
        s = make_standardize(p, nv, case)
        if s.have_stats:
            ctx.violation(slim(case), False, True, "a fresh object has no statistics", tags=dict(clause="have_stats"))
        probe_in = probe.copy()
        res = impl_apply(s, probe_in, paxis, ip)
        lines.append("apply %d %d 0 %s" % (nv, ip, wire_call(probe, dtype, paxis)))
        pending.append(("apply", case, res, None, probe))
        oracle_local(ctx, case, res, probe, P)
        oracle_purity(ctx, case, res, probe, probe_in)
        return

    if case["kind"] == "empty":
        s = p.Standardize(norm_var=nv)
        for shape in ((0,), (0, F), (2, 0), (3, 0, F)):
            a = np.zeros(shape, dtype=DTYPES[dtype])
            for name, fn in (("accumulate", lambda: s.accumulate(a)), ("apply", lambda: s.apply(a))):
                try:
                    fn()
                    got = "ok"
                except Exception as e:
                    got = type(e).__name__
                ctx.count("empty_" + got)
                if got != "ValueError":
                    ctx.violation(dict(kind="empty", shape=list(shape), fn=name), "ValueError", got,
                                  "empty arrays are rejected with ValueError", tags=dict(clause="empty"))
            if len(shape) >= 1:
                lines.append("acc 1 " + wire_call(a, dtype, -1))
                pending.append(("expect", dict(kind="empty", shape=list(shape)), "err:ValueError", None, None))
        return

    # ---- accumulate two histories of the same data
    try:
        s1, arrays1 = impl_accumulate(case, "h1", X)
        s2, arrays2 = impl_accumulate(case, "h2", X)
    except Exception as e:
        ctx.violation(slim(case), "accumulate succeeds", type(e).__name__ + ": " + str(e)[:100],
                      "accumulate accepts vectors and tensors of matching dimension", tags=dict(clause="accumulate_raises"))
        return
    for c in case["h1"]:
        ctx.count("call_vec" if c["other"] is None else "call_rank_%d" % (len(c["other"]) + 1))
    if not s1.have_stats:
        ctx.violation(slim(case), True, False, "have_stats after accumulate", tags=dict(clause="have_stats"))
    m1 = impl_stats(s1, tmpdir)
    m2 = impl_stats(s2, tmpdir)
    S, Q = exact_moments(X)
    # (oracle) statistics are those of all vectors, whatever the split / order / vector-vs-tensor mix
    sumabs = np.abs(X).sum(axis=0)
    for name, m in (("h1", m1), ("h2", m2)):
        ok = m.shape == (2, F + 1) and m.dtype == np.float64 and float(m[0, -1]) == N
        if ok:
            for j in range(F):
                if exact:
                    ok &= fr(m[0, j]) == S[j] and fr(m[1, j]) == Q[j]
                else:
                    ok &= abs(fr(m[0, j]) - S[j]) <= Fraction(4 * N * EPS * float(sumabs[j]) + 1e-300)
                    ok &= abs(fr(m[1, j]) - Q[j]) <= Fraction(4 * N * EPS * float(Q[j]) + 1e-300)
        if not ok:
            ctx.violation(dict(slim(case), hist=name), [[float(x) for x in S], [float(x) for x in Q], N], m.tolist(),
                          "statistics = (sums, count; sums of squares) of all accumulated feature vectors",
                          tags=dict(clause="stats_direct", exact=exact))
    if exact and not np.array_equal(m1, m2):
        ctx.violation(slim(case), m1.tolist(), m2.tolist(), "re-split / permuted accumulation gives identical statistics",
                      tags=dict(clause="split_perm_stats"))
    # correspondence: exact-rational model on history 1
    lines.append("acc " + wire_hist(arrays1))
    pending.append(("acc", case, m1, (S, Q, N, exact, sumabs), None))

    if case["kind"] == "mismatch_acc":
        G = F + 1
        bad = np.ones((2, G) if ctx.rng.random() < 0.5 else (G,), dtype=DTYPES[dtype])
        try:
            s1.accumulate(bad)
            got = "ok"
        except Exception as e:
            got = type(e).__name__
        if got != "ValueError":
            ctx.violation(slim(case), "ValueError", got, "accumulate of another feature dimension raises ValueError",
                          tags=dict(clause="dim_mismatch_acc"))
        lines.append("acc " + wire_hist(arrays1 + [(bad, dtype, -1)]))
        pending.append(("expect", case, "err:ValueError", None, None))
        return

    # ---- apply
    probe_in = probe.copy()
    res1 = impl_apply(s1, probe_in, paxis, ip)
    res2 = impl_apply(s2, probe.copy(), paxis, False)
    lines.append("apply %d %d %s %s" % (nv, ip, wire_hist(arrays1), wire_call(probe, dtype, paxis)))
    pending.append(("apply", case, res1, (S, Q, N, exact), probe))
    if case["kind"] == "mismatch_apply":
        if res1.get("err") != "ValueError":
            ctx.violation(slim(case), "ValueError", res1.get("err", "ok"),
                          "apply to another feature dimension raises ValueError", tags=dict(clause="dim_mismatch_apply"))
        return
    if "err" in res1 or "err" in res2:
        ctx.violation(slim(case), "apply succeeds", [res1.get("err"), res2.get("err")],
                      "apply with statistics succeeds on a matching array", tags=dict(clause="apply_raises"))
        return
    oracle_purity(ctx, case, res1, probe, probe_in)
    pos = case["probe"]["pos"]
    V = vectors_of(np.asarray(probe, dtype=np.float64), pos)
    Y, tol, mu, scale = expected_apply(S, Q, N, nv, V)
    got = vectors_of(res1["out"], pos)
    if got.shape != V.shape or res1["shape"] != list(probe.shape):
        ctx.violation(slim(case), list(probe.shape), res1["shape"], "apply keeps the shape", tags=dict(clause="shape"))
        return
    excl = sum(1 for t in tol if t is None)
    if excl:
        ctx.count("coeff_excluded_threshold_or_illcond", excl)
        ctx.gap_cases += 1
    bad = close_arrays(got, Y, tol)
    if bad:
        ctx.violation(slim(case), [float(Y[bad[0][0], bad[0][1]])], [bad[0][2]],
                      "apply(x)_i = (x_i - mean_i) * (1/std_i or 1): direct formula on all accumulated vectors",
                      tags=dict(clause="apply_formula", nv=nv))
    # permuted / re-split accumulation gives the same transform
    got2 = vectors_of(res2["out"], pos)
    if exact:
        same = np.array_equal(got, got2, equal_nan=True)
    else:
        same = not close_arrays(got, got2, tol)
    if not same:
        ctx.violation(slim(case), "same transform", "different", "re-split / permuted accumulation gives the same apply()",
                      tags=dict(clause="split_perm_apply"))


def oracle_purity(ctx, case, res, probe, probe_in):
    if "err" in res:
        return
    ip = case["ip"]
    if res["dtype"] != "float64":
        ctx.violation(slim(case), "float64", res["dtype"], "result dtype is float64", tags=dict(clause="dtype"))
    if not ip:
        if not res["unchanged"] or res["aliased"]:
            ctx.violation(slim(case), "input untouched", dict(unchanged=res["unchanged"], aliased=res["aliased"]),
                          "without in_place the input is not modified", tags=dict(clause="purity"))
    elif probe.dtype != np.float64:
        if not res["unchanged"]:
            ctx.violation(slim(case), "input untouched", "modified",
                          "in_place on a non-float64 array works on a copy", tags=dict(clause="purity_cast"))
    else:
        if not np.array_equal(probe_in, res["out"], equal_nan=True):
            ctx.violation(slim(case), "input holds the result", "differs",
                          "in_place on float64 writes the result into the input", tags=dict(clause="in_place"))


def oracle_local(ctx, case, res, probe, P):
    nv = case["nv"]
    k = P.shape[0]
    if k == 1:
        want = "ValueError" if nv else None
        if nv:
            if res.get("err") != "ValueError":
                ctx.violation(slim(case), "ValueError", res.get("err", "ok"),
                              "a single vector cannot be variance-normalised without statistics", tags=dict(clause="local_single"))
        else:
            if "err" in res or np.any(res["out"] != 0):
                ctx.violation(slim(case), "zeros", res.get("err", "nonzero"), "a single vector standardises to 0",
                              tags=dict(clause="local_single"))
        ctx.count("local_single")
        return
    if "err" in res:
        ctx.violation(slim(case), "apply succeeds", res["err"], "local standardisation succeeds", tags=dict(clause="apply_raises"))
        return
    pos = case["probe"]["pos"]
    V = vectors_of(np.asarray(probe, dtype=np.float64), pos)
    S, Q = exact_moments(V)
    Y, tol, mu, scale = expected_apply(S, Q, k, nv, V)
    got = vectors_of(res["out"], pos)
    bad = close_arrays(got, Y, tol)
    if bad:
        ctx.violation(slim(case), [float(Y[bad[0][0], bad[0][1]])], [bad[0][2]],
                      "local: (x - own mean)/own std per coefficient over the other axes", tags=dict(clause="local_formula", nv=nv))
    # moments of the result
    for j, t in enumerate(tol):
        if t is None:
            ctx.count("coeff_excluded_threshold_or_illcond")
            continue
        col = got[:, j]
        sc = scale[j]
        m = math.fsum(col) / k
        if abs(m) > t * (1 + max(abs(col))) * 4:
            ctx.violation(slim(case), 0.0, m, "local result has mean 0 over the other axes", tags=dict(clause="local_mean_zero"))
        if nv and sc != 1.0:
            v = math.fsum((c - m) ** 2 for c in col) / k
            if abs(v - 1.0) > 8 * t:
                ctx.violation(slim(case), 1.0, v, "local result has variance 1 (norm_var, variance not ~0)",
                              tags=dict(clause="local_var_one"))


# ---- correspondence ---------------------------------------------------------------------------------


def parse_acc(o):
    # "ok F cnt | sums | sqs | pad"
    parts = o.split("|")
    head = parts[0].split()
    F = int(head[1])
    cnt = Fraction(head[2])
    sums = [Fraction(t) for t in parts[1].split()]
    sqs = [Fraction(t) for t in parts[2].split()]
    pad = Fraction(parts[3].split()[0])
    return F, cnt, sums, sqs, pad


def compare(ctx, pending, outs):
    for (what, case, impl, aux, probe), o in zip(pending, outs):
        ctx.count("corr_" + what)
        if what == "expect":
            if o != impl:
                ctx.mismatch(slim(case), o, impl, "model vs expected exception")
            continue
        if what == "acc":
            S, Q, N, exact, sumabs = aux
            if not o.startswith("ok "):
                ctx.mismatch(slim(case), o, "ok", "model rejected an accumulate history the implementation accepted")
                continue
            F, cnt, sums, sqs, pad = parse_acc(o)
            m = impl
            ok = m.shape == (2, F + 1) and fr(m[0, -1]) == cnt and fr(m[1, -1]) == pad
            if ok:
                for j in range(F):
                    if exact:
                        ok &= fr(m[0, j]) == sums[j] and fr(m[1, j]) == sqs[j]
                    else:
                        ok &= abs(fr(m[0, j]) - sums[j]) <= Fraction(4 * N * EPS * float(sumabs[j]) + 1e-300)
                        ok &= abs(fr(m[1, j]) - sqs[j]) <= Fraction(4 * N * EPS * float(sqs[j]) + 1e-300)
            if not ok:
                ctx.mismatch(slim(case), o[:300], m.tolist(), "exact-rational statistics vs implementation (via save .npy)")
            continue
        # apply
        if "err" in impl:
            if o != "err:" + impl["err"]:
                ctx.mismatch(slim(case), o[:200], impl["err"], "apply: exception class")
            continue
        if not o.startswith("ok "):
            ctx.mismatch(slim(case), o[:200], "ok", "apply: model raised, implementation did not")
            continue
        parts = o.split("|")
        head = parts[0].split()
        mshape = [int(t) for t in head[3 : 3 + int(head[2])]]
        mdata = np.array([common.bits_to_float(t) for t in parts[1].split()])
        mafter = np.array([common.bits_to_float(t) for t in parts[2].split()])
        if head[1] != "f64" or impl["dtype"] != "float64" or mshape != impl["shape"]:
            ctx.mismatch(slim(case), [head[1], mshape], [impl["dtype"], impl["shape"]], "apply: dtype tag / shape")
            continue
        pin = np.asarray(probe, dtype=np.float64).ravel()
        m_unchanged = bool(np.array_equal(mafter, pin, equal_nan=True))
        if m_unchanged != impl["unchanged"]:
            ctx.mismatch(slim(case), m_unchanged, impl["unchanged"], "apply: input left unchanged?")
            continue
        out = impl["out"].ravel(order="C")
        pos = case["probe"]["pos"]
        # tolerance per coefficient: the Float model sums sequentially, NumPy pairwise
        if aux is None:
            V = vectors_of(np.asarray(probe, dtype=np.float64), pos)
            S, Q = exact_moments(V)
            N = V.shape[0]
            exact = case["mode"] in ("int", "const") or case["dtype"] in ("i32", "i16")
        else:
            S, Q, N, exact = aux
        if impl["out"].ndim > 1 and N == 1 and aux is None:
            tol = [1e-12] * impl["out"].shape[pos]
        elif impl["out"].ndim == 1 and aux is None:
            tol = [1e-12] * impl["out"].shape[0]
        else:
            V0 = np.zeros((1, len(S)))
            _, tol, _, _ = expected_apply(S, Q, N, case["nv"], V0)
            if exact:
                tol = [None if t is None else 1e-12 for t in tol]
        a = vectors_of(impl["out"], pos)
        b = vectors_of(mdata.reshape(impl["shape"]), pos)
        bad = close_arrays(a, b, tol)
        if bad:
            ctx.mismatch(slim(case), bad[0][3], bad[0][2], "apply: Float model vs implementation, element %s" % (bad[0][:2],))


# ---- entry points --------------------------------------------------------------------------------------


def given_statistics_phase(ctx, tmpdir):
    """'with exactly the statistics it was given': the same double-precision statistics handed over in every form
    Standardize accepts (its own accumulate, .npy, raw binary, a Kaldi double matrix file, a Kaldi table entry) give the
    same transform, bit for bit.  The data has a large offset and a small spread, so statistics that pass through single
    precision anywhere lose the variance."""
    p = post()
    rs = np.random.RandomState(1611)
    data = rs.normal(size=(4000, 4)) * np.array([2.0, 0.5, 0.125, 3.0]) + np.array([12.0, -35.0, 0.25, 900.0])
    ref = p.Standardize(norm_var=True)
    ref.accumulate(data)
    x = data[:5].copy()
    want = ref.apply(x.copy())
    stats = np.zeros((2, 5))
    stats[0, :4], stats[0, 4], stats[1, :4] = data.sum(0), len(data), (data ** 2).sum(0)
    srcs = []
    npy, raw = os.path.join(tmpdir, "given.npy"), os.path.join(tmpdir, "given.bin")
    np.save(npy, stats)
    stats.tofile(raw)
    srcs += [("npy", lambda: p.Standardize(npy, True)), ("raw", lambda: p.Standardize(raw, True, force_as="file"))]
    try:
        from pydrobert.kaldi.io import open as kaldi_open

        mat, ark = os.path.join(tmpdir, "given.cmvn"), os.path.join(tmpdir, "given.ark")
        with kaldi_open(mat, mode="w") as out:
            out.write(stats, "dm")
        with kaldi_open("ark:" + ark, "dm", mode="w") as table:
            table.write("global", stats)
        srcs += [("kaldi_matrix", lambda: p.Standardize(mat, True, force_as="kaldi")), ("kaldi_table", lambda: p.Standardize("ark:" + ark, True)),
                 ("kaldi_table_key", lambda: p.Standardize("ark:" + ark, True, key="global"))]
    except ImportError:
        ctx.count("pydrobert_kaldi_missing")
    for name, load in srcs:
        case = dict(kind="given_statistics", source=name)
        ctx.case(case, kind="given:" + name)
        try:
            got = load().apply(x.copy())
        except Exception as e:
            ctx.violation(case, "the transform of the given statistics", "%s: %s" % (type(e).__name__, str(e)[:150]),
                          "statistics given as a file are used as given", tags=dict(clause="given_statistics", source=name, how="raises"))
            continue
        if got.dtype != want.dtype or got.shape != want.shape or not np.allclose(got, want, rtol=1e-9, atol=1e-9):
            ctx.violation(case, want[0].tolist(), got[0].tolist() if got.shape == want.shape else list(got.shape),
                          "the same double-precision statistics give the same transform whatever form they were given in",
                          tags=dict(clause="given_statistics", source=name))


def constant_coefficient_phase(ctx, tmpdir):
    """statistics in which one coefficient had the SAME value in every vector (count*sumsq == sum**2 up to rounding: zero
    variance), written by save() in each format and loaded again: the loaded transform is the one of the saved object"""
    p = post()
    for const in (0.3, 0.1, 1e-3, float(np.log(1e-10)), -7.0):
        for nvec, as_tensor in ((7, True), (50, False)):
            rs = np.random.RandomState(1613)
            data = rs.normal(size=(nvec, 4))
            data[:, 2] = const
            ref = p.Standardize(norm_var=False)
            if as_tensor:
                ref.accumulate(data)
            else:
                for v in data:
                    ref.accumulate(v)
            x = data[:3].copy()
            want = ref.apply(x.copy())
            for ext, kw_save, kw_load in ((".npy", {}, {}), ("", {}, dict(force_as="file")), (".npz", dict(key="k"), dict(key="k"))):
                path = os.path.join(tmpdir, "const%s" % ext)
                if os.path.exists(path):
                    os.remove(path)
                case = dict(kind="constant_coefficient", value=const, vectors=nvec, as_tensor=as_tensor, format=ext or "raw")
                ctx.case(case, kind="constant_coeff:" + (ext or "raw"))
                try:
                    ref.save(path, **kw_save)
                    got = p.Standardize(path, False, **kw_load).apply(x.copy())
                except Exception as e:
                    ctx.violation(case, "the saved transform", "%s: %s" % (type(e).__name__, str(e)[:150]),
                                  "statistics saved by the library load again", tags=dict(clause="given_statistics", how="raises", source=ext or "raw"))
                    continue
                if got.shape != want.shape or not np.allclose(got, want, rtol=1e-12, atol=1e-12):
                    ctx.violation(case, want[0].tolist(), got[0].tolist() if got.shape == want.shape else list(got.shape),
                                  "apply with loaded statistics == apply of the object that saved them", tags=dict(clause="given_statistics", source=ext or "raw"))


def refused_call_phase(ctx):
    """an accumulate call that is REFUSED (ValueError: wrong feature dimension, empty array) leaves the statistics exactly as
    they were: the transform afterwards is that of the vectors actually accumulated"""
    p = post()
    rs = np.random.RandomState(1614)
    for as_tensor in (True, False):
        A = rs.normal(size=(30, 4)) * 3 + 7
        probe = A[:3].copy()
        want = (probe - A.mean(0)) / A.std(0)
        for bad in (rs.normal(size=(11, 5)), rs.normal(size=(6, 3)), rs.normal(size=5), np.zeros((0, 4))):
            case = dict(kind="refused_accumulate", as_tensor=as_tensor, refused_shape=list(bad.shape))
            ctx.case(case, kind="refused_accumulate")
            st = p.Standardize(norm_var=True)
            st.accumulate(A[:12]) if as_tensor else [st.accumulate(v) for v in A[:12]]
            try:
                st.accumulate(bad)
                ctx.count("refused_call_was_accepted")
                continue      # accepted after all: another shape rule, nothing to check here
            except ValueError:
                pass
            except Exception as e:
                ctx.violation(case, "ValueError", "%s: %s" % (type(e).__name__, str(e)[:120]), "a feature-dimension mismatch raises ValueError",
                              tags=dict(clause="raises", where="refused_accumulate"))
                continue
            st.accumulate(A[12:]) if as_tensor else [st.accumulate(v) for v in A[12:]]
            got = st.apply(probe.copy())
            if got.shape != want.shape or not np.allclose(got, want, rtol=1e-9, atol=1e-9):
                ctx.violation(case, want[0].tolist(), got[0].tolist(), "(x - mean) / sqrt(var) of the vectors ACCUMULATED so far - a refused call accumulates nothing",
                              tags=dict(clause="accumulate_any_split", where="refused_accumulate"))


def big_call_phase(ctx):
    """'any split of the data into accumulate calls gives the same transform', at sizes where an implementation might work
    in blocks: thousands of vectors in ONE call against the same data in two calls, many single vectors, a rank-3 tensor
    - compared with each other and with NumPy's float64 mean / variance of the data"""
    p = post()
    rs = np.random.RandomState(1612)
    for N in (1025, 2500, 4097):
        data = rs.normal(size=(N, 3)) * np.array([2.0, 0.5, 30.0]) + np.array([5.0, -3.0, 100.0])
        probe = data[:4].copy()
        splits = {
            "one call": [data],
            "two calls": [data[:1024], data[1024:]],
            "70 single vectors, then the rest": [v for v in data[:70]] + [data[70:]],
            "rank 3": [data[: (N // 5) * 5].reshape(5, N // 5, 3), data[(N // 5) * 5:]],
            "float32 view of one call": [data.astype(np.float32)] if N == 1025 else None,
        }
        mean, var = data.mean(0), data.var(0)
        want = (probe - mean) / np.sqrt(var)
        for name, calls in splits.items():
            if calls is None:
                continue
            case = dict(kind="big_call", N=N, split=name)
            ctx.case(case, kind="big_call")
            try:
                st = p.Standardize(norm_var=True)
                for c in calls:
                    if c.size:
                        st.accumulate(c)
                got = st.apply(probe.copy())
            except Exception as e:
                ctx.violation(case, "a transform", "%s: %s" % (type(e).__name__, str(e)[:150]), "accumulate / apply raise",
                              tags=dict(clause="raises", where="big_call"))
                continue
            tol = 1e-4 if name.startswith("float32") else 1e-8
            if got.shape != want.shape or not np.allclose(got, want, rtol=tol, atol=tol):
                ctx.violation(case, want[0].tolist(), got[0].tolist() if got.shape == want.shape else list(got.shape),
                              "(x - mean) / sqrt(var) with the statistics of ALL vectors accumulated so far, however they were split into calls",
                              tags=dict(clause="accumulate_any_split", where="big_call"))


def run(ctx, driver):
    r = ctx.rng
    n = ctx.scale(1500, 40000)
    tmpdir = tempfile.mkdtemp(prefix="pds_c16_", dir="/tmp")
    lines, pending = [], []
    try:
        with warnings.catch_warnings():
            warnings.simplefilter("ignore")
            given_statistics_phase(ctx, tmpdir)
            big_call_phase(ctx)
            refused_call_phase(ctx)
            constant_coefficient_phase(ctx, tmpdir)
            for case in corpus():
                eval_case(ctx, case, tmpdir, lines, pending)
            for i in range(n):
                if ctx.out_of_time():
                    ctx.note("out of time after %d generated cases" % i)
                    break
                case = gen_local_case(r) if r.random() < 0.2 else gen_case(r)
                eval_case(ctx, case, tmpdir, lines, pending)
    finally:
        shutil.rmtree(tmpdir, ignore_errors=True)
    outs = driver.run(lines)
    ctx.corr_lines += len(lines)
    ctx.count("correspondence_lines", len(lines))
    compare(ctx, pending, outs)


def corpus():
    """fixed cases: the shapes of the repo's own test, negative log-energies, a zero-variance column"""
    cs = []
    X = [[-12.5, 3.0], [-11.0, 3.0], [-14.25, 3.0], [-10.0, 3.0]]
    cs.append(dict(kind="global", mode="neg", dtype="f64", F=2, nv=True, ip=False, X=X,
                   h1=[dict(idx=[0], other=None, pos=0, axis=-1), dict(idx=[1, 2, 3], other=[3], pos=1, axis=-1)],
                   h2=[dict(idx=[3, 1, 0, 2], other=[2, 2], pos=0, axis=0)], P=[[-13.0, 3.0], [-9.5, 3.0]],
                   probe=dict(idx=[0, 1], other=[1, 2], pos=1, axis=-2)))
    X = [[1.0, 2.0, 3.0], [4.0, 6.0, 8.0], [0.0, -2.0, 5.0], [7.0, 7.0, 7.0], [1.0, 1.0, 2.0], [3.0, 5.0, -9.0]]
    cs.append(dict(kind="global", mode="int", dtype="i16", F=3, nv=True, ip=True, X=X,
                   h1=[dict(idx=[0, 1, 2, 3, 4, 5], other=[2, 3], pos=1, axis=1)],
                   h2=[dict(idx=[i], other=None, pos=0, axis=-1) for i in (5, 3, 1, 0, 2, 4)], P=[[2.0, 2.0, 2.0]],
                   probe=dict(idx=[0], other=None, pos=0, axis=-1)))
    # lone vectors given with their axis spelled 0 (a 1-D array's only axis), on a fresh instance and after a tensor
    X = [[1.0, -2.0, 4.0], [0.5, 3.0, 4.0], [2.0, 2.0, -1.0], [6.0, 0.0, 0.0]]
    cs.append(dict(kind="global", mode="float", dtype="f64", F=3, nv=True, ip=False, X=X,
                   h1=[dict(idx=[0], other=None, pos=0, axis=0), dict(idx=[1, 2], other=[2], pos=1, axis=1), dict(idx=[3], other=None, pos=0, axis=0)],
                   h2=[dict(idx=[3, 2, 1, 0], other=[4], pos=1, axis=-1)], P=[[1.0, 1.0, 1.0]],
                   probe=dict(idx=[0], other=None, pos=0, axis=0)))
    cs.append(dict(kind="local", mode="int", dtype="f64", F=2, nv=True, ip=True, X=[], h1=[], h2=[],
                   P=[[1.0, 5.0], [3.0, 5.0], [8.0, 5.0], [0.0, 5.0]], probe=dict(idx=[0, 1, 2, 3], other=[2, 2], pos=2, axis=-1)))
    return cs


def replay(rp):
    import json

    case = rp.get("case", {})
    print(common.canon(case)[:2000])
    if "X" not in case:
        print("oracle:", rp.get("oracle"), "expected", rp.get("expected"), "got", rp.get("got"))
        return 0
    ctx = common.Ctx(PROP, "quick", 0, 600)
    tmpdir = tempfile.mkdtemp(prefix="pds_c16_", dir="/tmp")
    lines, pending = [], []
    try:
        with warnings.catch_warnings():
            warnings.simplefilter("ignore")
            case = {k: v for k, v in case.items() if k != "hist"}
            eval_case(ctx, case, tmpdir, lines, pending)
    finally:
        shutil.rmtree(tmpdir, ignore_errors=True)
    try:
        outs = common.Driver(PROP).run(lines)
        compare(ctx, pending, outs)
        for ln, o in zip(lines, outs):
            print("model:", ln.split()[0], "->", o[:300])
    except Exception as e:  # the model is optional in a replay
        print("model: unavailable (%s)" % e)
    for (what, _, impl, _, _) in pending:
        if isinstance(impl, dict) and "out" in impl:
            print("impl apply:", impl["out"].ravel().tolist()[:24])
        elif isinstance(impl, dict):
            print("impl apply:", impl)
        elif isinstance(impl, np.ndarray):
            print("impl stats:", impl.tolist())
    print("oracle:", rp.get("oracle"), "| expected", rp.get("expected"), "| got", rp.get("got"))
    print("re-run: %d oracle violations, %d model mismatches" % (len(ctx.violations), len(ctx.mismatches)))
    for v in ctx.violations[:3]:
        print("  violation:", v["oracle"], v["tags"], "expected", v["expected"], "got", v["got"])
    return 1 if ctx.violations else 0

"""Public-API tracer components (DESIGN §2.4): they make index logic observable *exactly*.

DCBank      one real filter whose truncated response is the single tap 1 at bin 0: with
            use_log=False, use_power=False the STFT coefficient is 2*|sum_j w_j x[idx_j]|.
IntWindow   arbitrary (integer) window taps.
SpecBank    complex bank with arbitrary (start bin, integer taps) per filter.
"""
import numpy as np

from pydrobert.speech.filters import LinearFilterBank, WindowFunction


class IntWindow(WindowFunction):
    aliases = set()

    def __init__(self, taps=None, mode="ones"):
        self.taps = taps
        self.mode = mode

    def get_impulse_response(self, width):
        if self.taps is not None:
            t = np.asarray(self.taps, dtype=np.float64)
            assert len(t) == width, (len(t), width)
            return t
        if self.mode == "ones":
            return np.ones(width, dtype=np.float64)
        if self.mode == "ramp":  # 1,2,3,...  (distinguishes positions)
            return np.arange(1, width + 1, dtype=np.float64)
        if self.mode == "pow":  # base-B digits are too big; use primes-ish weights
            return np.asarray([(3 * i * i + 2 * i + 1) % 17 + 1 for i in range(width)], dtype=np.float64)
        raise ValueError(self.mode)


class DCBank(LinearFilterBank):
    """One real zero-phase filter = delta at DC. supports are configurable (they only drive defaults)."""

    aliases = set()

    def __init__(self, rate=1000.0, support=(-4, 5), num=1):
        self._rate = rate
        self._support = support
        self._num = num

    is_real = property(lambda self: True)
    is_analytic = property(lambda self: False)
    is_zero_phase = property(lambda self: True)
    num_filts = property(lambda self: self._num)
    sampling_rate = property(lambda self: self._rate)
    supports_hz = property(lambda self: tuple((0.0, self._rate / 4) for _ in range(self._num)))
    supports = property(lambda self: tuple(self._support for _ in range(self._num)))

    def get_impulse_response(self, filt_idx, width):
        return np.ones(width, dtype=np.float64) / width

    def get_frequency_response(self, filt_idx, width, half=False):
        n = (width + width % 2) // 2 + 1 - width % 2 if half else width
        r = np.zeros(n, dtype=np.float64)
        r[0] = 1
        return r

    def get_truncated_response(self, filt_idx, width):
        return 0, np.ones(1, dtype=np.float64) * (filt_idx + 1)


class SpecBank(LinearFilterBank):
    """Complex (or real) bank with explicit truncated responses: filters = [(start, taps), ...]."""

    aliases = set()

    def __init__(self, filters, rate=1000.0, real=False, support=(-4, 5)):
        self._filters = [(int(s), np.asarray(t)) for s, t in filters]
        self._rate = rate
        self._real = real
        self._support = support

    is_real = property(lambda self: self._real)
    is_analytic = property(lambda self: False)
    is_zero_phase = property(lambda self: True)
    num_filts = property(lambda self: len(self._filters))
    sampling_rate = property(lambda self: self._rate)
    supports_hz = property(lambda self: tuple((0.0, self._rate / 4) for _ in self._filters))
    supports = property(lambda self: tuple(self._support for _ in self._filters))

    def get_impulse_response(self, filt_idx, width):
        return np.fft.ifft(self.get_frequency_response(filt_idx, width))

    def get_frequency_response(self, filt_idx, width, half=False):
        start, taps = self._filters[filt_idx]
        full = np.zeros(width, dtype=np.complex128)
        if self._real:
            full[start : start + len(taps)] = taps
            full[width - start - len(taps) + 1 : width - start + 1] = taps[: None if start else 0 : -1].conj()
        else:
            for j, t in enumerate(taps):
                full[(start + j) % width] += t
        if half:
            return full[: (width + width % 2) // 2 + 1 - width % 2]
        return full

    def get_truncated_response(self, filt_idx, width):
        start, taps = self._filters[filt_idx]
        return start, taps.astype(np.complex128)

"""C05 - filter banks are laid out on the scale as documented, with unit gain."""
import math

import numpy as np

from . import common
from .translate import bankconsts, scales as tr_scales, utilfns as tr_util

PROP = "C05"
MODULES = ["PdsVerif.Props.C05"]
MODEL_MODULES = ["PdsVerif.Model.BankLayout"]
REQUIRED = [
    "PdsVerif.C05." + n
    for n in """scaleOK edges_equally_spaced vertex_ends grid_hz_strictMono
    tri_rejects_iff fbank_rejects_iff gabor_rejects_iff gammatone_rejects_iff
    tri_range_rejected fbank_range_rejected gabor_range_rejected gammatone_range_rejected
    fbank_accepted_lt tri_layout fbank_layout gabor_layout gammatone_layout
    tri_centers_strictMono fbank_centers_strictMono gabor_centers_strictMono gammatone_centers_strictMono
    tri_center_mem_support fbank_center_mem_support gabor_center_mem_support gammatone_center_mem_support
    tri_peak fbank_peak loop_range bins_generic bins_doc tri_is_triangle fbank_is_sqrt_mel_triangle tri_vertices_valid
    gabor_response_bins gabor_peak gabor_3dB gabor_erb gabor_l2 gabor_bank_filters gabor_neighbours_cross
    gammatone_bank_filters gammatone_neighbours_cross
    gammatone_H_nsq gammatone_peak gammatone_3dB gammatone_l2 gammatone_h_nsq gammatone_l2_integral
    gammatone_erb_const gammatone_erb_partial gammatone_erb_order1 gammatone_erb""".split()
]
RULE = (
    "configurations = bank class (4) x scale (mel, Bark, linear(low, slope), octave(low)) x sampling rate (1 kHz .. 48 kHz, "
    "odd and fractional rates included) x num_filts (1..40) x (low_hz, high_hz) drawn from valid ranges (high = None / Nyquist / "
    "inside), boundary ranges (high within 1 Hz above Nyquist, high between floor(rate/2) and rate/2) and invalid ranges (low<0, "
    "high<=low, high>Nyquist+1, high=0, high<0) x analytic / scale_l2_norm / erb / order 1..6 / max_centered; per configuration "
    "up to 3 filter indices x DFT widths (8..512, odd and even) x half for the bin-level correspondence and 2-3 widths for the "
    "documented-triangle oracle; dense grids (256..8192 bins) for peak / 3 dB / ERB / L2. Distinct by the full parameter tuple; "
    "a configuration is trivial only when the constructor rejects it."
)
TRUSTED = [
    "translator harness/translate/bankconsts.py (backward slices of the four constructors and response loops -> Generated/BankConsts.lean) "
    "plus scales.py / util.py translators; theorems are over these generated definitions at the reals",
    "hand-written Python plumbing of Model/BankLayout.lean (tuple comprehensions, zip/slices, the bin write loop with res[-idx], the "
    "period loops, dft_size): tied by Float correspondence through the public API (centers_hz, supports_hz, supports, is_analytic, "
    "get_frequency_response) at 1e-10 relative",
    "Mathlib's integral_gaussian, Real.integral_rpow_mul_exp_neg_mul_Ioi, integral_univ_inv_one_add_sq and "
    "integral_of_hasDerivAt_of_tendsto (kernel-checked)",
    "complex arithmetic of NumPy in _H (complex power / division / exp) mirrored as pair arithmetic: exercised by correspondence, not verified",
]
ASSUMPTIONS = [
    "scale domain: linear slope > 0, octave low_hz > 0 (octave with low_hz = 0 gives -inf: outside the property), mel low > -700, Bark low > -1960",
    "layout theorems need low_hz < effective high_hz: Gabor / gammatone do not compare low_hz with the default high_hz = sampling_rate // 2 "
    "and accept high_hz = 0 (falsy): such inputs are neither required to be rejected by the property nor valid; counted out_of_scope "
    "(Fbank, since its repair, fills the default first and rejects both: fbank_rejects_iff / fbank_accepted_lt)",
    "Fbank / Gabor / gammatone reject a valid high_hz in (floor(rate/2), rate/2] (only for odd / fractional rates) and default to "
    "floor(rate/2), not rate/2: recorded in the histogram (valid_range_rejected), not a violation of the property as stated",
    "gammatone_erb (every order n >= 1) discharges the hypothesis of gammatone_erb_partial with "
    "CauchyPow.integral_inv_one_add_sq_pow: integral (1+v^2)^(-n) dv = pi (2n-2)! / (2^(2n-2) ((n-1)!)^2), proved in "
    "Lemmas/CauchyPow.lean by the reduction formula 2n I(n+1) = (2n-1) I(n) (whole-line FTC on x (1+x^2)^(-n)) and induction; "
    "the ERB of the *sampled* response is additionally checked numerically (5e-3)",
    "gabor_center_mem_support / gammatone_center_mem_support are proved for the default normalisation; with scale_l2_norm the square-root "
    "radicand must be non-negative (true for every generated case, sampled, counted as hypothesis-gap cases)",
    "'peak with gain 1' is proved for the principal image; the contribution of periodic images for filters whose support spans less "
    "than rate/2 (below EFFECTIVE_SUPPORT_THRESHOLD) and the discrete-vs-continuous L2 norm are sampled on dense grids only",
    "IEEE round-off (vertices at exact bin frequencies, ceil/floor at exact integers) is absent from the theorems and sampled",
]
LEVEL_TEXT = (
    "Proved over the reals for all num_filts / ranges / rates / widths, about definitions regenerated from filters.py on every run: "
    "vertices (triangular, Fbank) and half-step band edges (Gabor, gammatone) are equally spaced on each of the four scales between "
    "low_hz and the effective high_hz, start/end there, are strictly increasing; centres strictly increasing and strictly inside "
    "supports_hz; both constructor validation styles characterised exactly and the property's rejection clause derived for all four; "
    "triangular / Fbank get_frequency_response raises nothing and equals the documented (sqrt-mel-)triangle at every bin for every "
    "width, half/analytic/real (floor/ceil arithmetic, list-write loop with mirrored writes); Gabor: peak 1, power 10^(-3/10) at both "
    "band edges, ERB = edge spacing (Gaussian integral), unit L2 norm of the impulse response; gammatone: |H|^2 closed form, peak 1, "
    "power 1/2 at both band edges, c^2 (2n-2)!/(2 alpha)^(2n-1) = 1 with the Gamma integral, alpha_const(erb) closed form, ERB = edge "
    "spacing for every order (integral of (1+v^2)^(-n) proved by reduction formula + induction). Partial: periodic-image and "
    "discretisation effects sampled."
)
LEVEL_NOTE = (
    "Trusted: Lean kernel, std axioms, the bankconsts/scales/util translators, the hand-written list/loop plumbing tied by Float "
    "correspondence (1e-10) through the public API. Hypotheses: scale domains, low_hz < effective high_hz. Not proved: "
    "image overlap / discretisation, round-off."
)
TECHNIQUE = "Lean 4 proofs over translator-generated constructor/response slices (reals, Mathlib integrals) + Float correspondence + dense-grid oracle"


def translate(repo):
    files = {}
    files.update(tr_scales.generate(repo)[0])
    files.update(tr_util.generate(repo))
    files.update(bankconsts.generate(repo))
    return files


# ---------------------------------------------------------------------------------------------------
# independent scale code (oracle)


def own_scale(sc):
    n = sc["name"]
    if n == "mel":
        return (lambda f: 1127.0 * math.log1p(f / 700.0)), (lambda s: 700.0 * math.expm1(s / 1127.0))
    if n == "linear":
        lo, sl = sc["low_hz"], sc["slope_hz"]
        return (lambda f: (f - lo) * sl), (lambda s: s / sl + lo)
    if n == "octave":
        base = max(1e-10, sc["low_hz"])
        return (lambda f: math.log(f / base, 2.0) if f > 0 else float("-inf")), (lambda s: base * 2.0 ** s)
    if n == "bark":

        def h2s(f):
            z = 26.81 * f / (1960.0 + f) - 0.53
            if z < 2.0:
                z += 0.15 * (2.0 - z)
            elif z > 20.1:
                z += 0.22 * (z - 20.1)
            return z

        def s2h(z):
            if z < 2.0:
                z = (z - 0.3) / 0.85
            elif z > 20.1:
                z = (z + 4.422) / 1.22
            return 1960.0 * (z + 0.53) / (26.28 - z)

        return h2s, s2h
    raise ValueError(n)


def scale_obj(sc):
    from pydrobert.speech import scales

    n = sc["name"]
    if n == "mel":
        return scales.MelScaling()
    if n == "bark":
        return scales.BarkScaling()
    if n == "linear":
        return scales.LinearScaling(sc["low_hz"], sc["slope_hz"])
    return scales.OctaveScaling(sc["low_hz"])


def scale_token(sc):
    n = sc["name"]
    if n in ("mel", "bark"):
        return n
    if n == "linear":
        return "linear:%s:%s" % (common.fbits(sc["low_hz"]), common.fbits(sc["slope_hz"]))
    return "octave:%s" % common.fbits(sc["low_hz"])


def scale_for(cfg):
    """the scale object a configuration names.  With `scale_prev` the object was built with other parameters first and
    its documented public attributes (`low_hz`, `slope_hz`) were then reassigned - a scale object is a plain mutable
    value that callers share between banks; the layout must follow the parameters in force when the bank is built"""
    sc = cfg["scale"]
    prev = cfg.get("scale_prev")
    if not prev:
        return scale_obj(sc)
    o = scale_obj(dict(sc, **prev))
    o.hertz_to_scale(1000.0), o.scale_to_hertz(1.0)  # it has been used
    for k, v in sc.items():
        if k != "name":
            setattr(o, k, v)
    return o


def poke_accessors(bank):
    """what a caller may do with the values the read-only properties hand out: in-place arithmetic on an array, item
    assignment on a list (tuples refuse).  None of it may reach the bank's own state."""
    for name in ("centers_hz", "supports_hz", "supports", "centers_ang", "supports_ang"):
        try:
            v = getattr(bank, name)
        except Exception:
            continue
        try:
            if isinstance(v, np.ndarray):
                v *= 0.001
            elif isinstance(v, list) and v:
                v[0] = v[-1]
                v.reverse()
        except Exception:
            pass


def build_via_config(cfg):
    """the same bank through the documented configuration route: a JSON-style mapping handed to
    alias_factory_subclass_from_arg (what the command-line tools and nested computer configs do)"""
    import json
    from pydrobert.speech import filters
    from pydrobert.speech.alias import alias_factory_subclass_from_arg

    k = cfg["kind"]
    m = dict(name={"tri": "tri", "fbank": "fbank", "gabor": "gabor", "gammatone": "tonebank"}[k], num_filts=cfg["num_filts"],
             high_hz=cfg["high"], low_hz=cfg["low"], sampling_rate=cfg["rate"])
    if k != "fbank":
        sc = cfg["scale"]
        m["scaling_function"] = sc["name"] if set(sc) == {"name"} else dict(sc)
    if k in ("tri", "fbank"):
        m["analytic"] = cfg["analytic"]
    if k in ("gabor", "gammatone"):
        m.update(scale_l2_norm=cfg["l2"], erb=cfg["erb"])
    if k == "gammatone":
        m.update(order=cfg["order"], max_centered=cfg["max_centered"])
    return alias_factory_subclass_from_arg(filters.LinearFilterBank, json.loads(json.dumps(m)))


def build(cfg):
    from pydrobert.speech import filters

    if cfg.get("via_config"):
        return build_via_config(cfg)
    k = cfg["kind"]
    kw = dict(num_filts=cfg["num_filts"], high_hz=cfg["high"], low_hz=cfg["low"], sampling_rate=cfg["rate"])
    if k == "tri":
        b = filters.TriangularOverlappingFilterBank(scale_for(cfg), analytic=cfg["analytic"], **kw)
    elif k == "fbank":
        b = filters.Fbank(analytic=cfg["analytic"], **kw)
    elif k == "gabor":
        b = filters.GaborFilterBank(scale_for(cfg), scale_l2_norm=cfg["l2"], erb=cfg["erb"], **kw)
    else:
        b = filters.ComplexGammatoneFilterBank(scale_for(cfg), order=cfg["order"], max_centered=cfg["max_centered"],
                                               scale_l2_norm=cfg["l2"], erb=cfg["erb"], **kw)
    if cfg.get("poke_accessors"):
        poke_accessors(b)
    return b


def cfg_line(cfg):
    k = cfg["kind"]
    f1 = cfg.get("analytic", False) if k in ("tri", "fbank") else cfg.get("l2", False)
    hi = "none" if cfg["high"] is None else common.fbits(cfg["high"])
    sc = "mel" if k == "fbank" else scale_token(cfg["scale"])
    return "%s %s %d %s %s %s %d %d %d %d" % (
        k, sc, cfg["num_filts"], hi, common.fbits(cfg["low"]), common.fbits(cfg["rate"]),
        int(bool(f1)), int(bool(cfg.get("erb", False))), int(bool(cfg.get("max_centered", False))), int(cfg.get("order", 4)))


# ---------------------------------------------------------------------------------------------------
# generator

RATES = [8000, 16000, 11025, 22050, 44100, 4000, 1000, 8000.0, 16000.0, 7999.5, 48000, 12345]
KINDS = ["tri", "fbank", "gabor", "gammatone"]


def gen_scale(r, low):
    u = r.random()
    if u < 0.3:
        return dict(name="mel")
    if u < 0.55:
        return dict(name="bark")
    if u < 0.8:
        return dict(name="linear", low_hz=r.choice([0.0, 20.0, low, -5.0]), slope_hz=r.choice([1.0, 0.5, 3.0, 10 ** r.uniform(-2, 2)]))
    return dict(name="octave", low_hz=r.choice([1.0, 20.0, 27.5, max(low, 1e-3), 10 ** r.uniform(-3, 2)]))


def gen_cfg(r, stream):
    kind = r.choice(KINDS)
    rate = r.choice(RATES)
    nyq = rate / 2
    fl = float(math.floor(rate / 2))
    nf = r.choice([1, 2, 3, 5, 8, 10, 13, 23, 40])
    low = r.choice([0.0, 20.0, 50.5, 300.0, r.uniform(0, nyq * 0.5), 1.0, 64.0])
    if stream == "valid":
        high = r.choice([None, nyq, fl, nyq - 100.0 if nyq > 400 else nyq * 0.9, nyq / 2, r.uniform(low + 1, max(low + 2, fl))])
    elif stream == "boundary":
        high = r.choice([nyq + 0.5, nyq + 1.0, nyq + 1.0000001, (fl + nyq) / 2 if fl < nyq else nyq, math.nextafter(nyq, 1e9), fl + 1.0,
                         nyq + 0.999, low + 1e-6, math.nextafter(low, 1e9)])
    else:
        choice = r.randrange(7)
        if choice == 0:
            low = r.choice([-1.0, -1e-9, -300.0])
            high = r.choice([None, nyq, nyq / 2])
        elif choice == 1:
            high = r.choice([low, low * 0.5 if low > 0 else low, low - 1.0 if low > 1 else low])
            if high is not None and high <= 0:
                low, high = 300.0, 200.0
        elif choice == 2:
            high = r.choice([nyq + 1.5, nyq + 2.0, rate, 10 * rate, nyq + 1.0 + 1e-6])
        elif choice == 3:
            high = 0.0
        elif choice == 4:
            high = r.choice([-1.0, -nyq])
        elif choice == 5:
            low = r.choice([nyq + 0.5, nyq, nyq + 0.2])
            high = r.choice([None, nyq + 0.8, nyq + 1.0])
        else:
            low, high = -5.0, r.choice([-1.0, 0.0, nyq + 5])
    cfg = dict(kind=kind, scale=dict(name="mel") if kind == "fbank" else gen_scale(r, low), num_filts=nf, high=high,
               low=float(low), rate=rate)
    if kind in ("tri", "fbank"):
        cfg["analytic"] = r.random() < 0.4
    else:
        cfg["l2"] = r.random() < 0.4
        cfg["erb"] = r.random() < 0.5
        if kind == "gammatone":
            cfg["order"] = r.choice([1, 2, 3, 4, 4, 5, 6])
            cfg["max_centered"] = r.random() < 0.4
    return cfg


CORPUS = [
    # the configurations of the three repaired gammatone defects, and the defaults
    dict(kind="gammatone", scale=dict(name="mel"), num_filts=6, high=None, low=20.0, rate=16000, l2=True, erb=False, order=4, max_centered=False),
    dict(kind="gammatone", scale=dict(name="mel"), num_filts=6, high=None, low=20.0, rate=16000, l2=False, erb=True, order=4, max_centered=False),
    dict(kind="gammatone", scale=dict(name="bark"), num_filts=10, high=3800.0, low=50.0, rate=8000, l2=True, erb=True, order=2, max_centered=True),
    dict(kind="gabor", scale=dict(name="mel"), num_filts=10, high=None, low=20.0, rate=16000, l2=False, erb=True),
    dict(kind="gabor", scale=dict(name="mel"), num_filts=10, high=None, low=20.0, rate=16000, l2=True, erb=False),
    dict(kind="tri", scale=dict(name="mel"), num_filts=40, high=None, low=20.0, rate=16000, analytic=False),
    dict(kind="fbank", scale=dict(name="mel"), num_filts=40, high=None, low=20.0, rate=16000, analytic=False),
    dict(kind="tri", scale=dict(name="octave", low_hz=27.5), num_filts=11, high=4000.5, low=27.5, rate=8000, analytic=True),
    dict(kind="fbank", scale=dict(name="mel"), num_filts=5, high=5512.5, low=0.0, rate=11025, analytic=False),
    dict(kind="gabor", scale=dict(name="linear", low_hz=0.0, slope_hz=1.0), num_filts=8, high=4000.0, low=0.0, rate=8000, l2=False, erb=False),
    # object histories: a scale object whose public parameters were reassigned after use (shared between banks) ...
    dict(kind="tri", scale=dict(name="octave", low_hz=9.0), scale_prev=dict(low_hz=30.0), num_filts=8, high=2304.0, low=9.0, rate=8000, analytic=False),
    dict(kind="gabor", scale=dict(name="octave", low_hz=30.0), scale_prev=dict(low_hz=9.0), num_filts=6, high=3800.0, low=30.0, rate=8000, l2=False, erb=False),
    dict(kind="gammatone", scale=dict(name="octave", low_hz=55.0), scale_prev=dict(low_hz=20.0), num_filts=6, high=3800.0, low=60.0, rate=8000, l2=False, erb=False, order=4, max_centered=False),
    dict(kind="tri", scale=dict(name="linear", low_hz=100.0, slope_hz=2.5), scale_prev=dict(low_hz=0.0, slope_hz=1.0), num_filts=7, high=3000.0, low=100.0, rate=8000, analytic=True),
    dict(kind="gabor", scale=dict(name="linear", low_hz=0.0, slope_hz=0.5), scale_prev=dict(low_hz=50.0, slope_hz=3.0), num_filts=5, high=3500.0, low=20.0, rate=8000, l2=False, erb=True),
    # the configuration route (a mapping given to alias_factory_subclass_from_arg), with values that are falsy but meaningful
    # (low_hz 0, flags False, a linear scale anchored at 0 Hz)
    dict(kind="tri", scale=dict(name="mel"), num_filts=10, high=4000.0, low=0.0, rate=8000, analytic=False, via_config=True),
    dict(kind="fbank", scale=dict(name="mel"), num_filts=8, high=4000.0, low=0.0, rate=8000, analytic=False, via_config=True),
    dict(kind="gabor", scale=dict(name="linear", low_hz=0.0, slope_hz=1.0), num_filts=6, high=3500.0, low=0.0, rate=8000, l2=False, erb=False, via_config=True),
    dict(kind="gammatone", scale=dict(name="bark"), num_filts=6, high=3800.0, low=0.0, rate=8000, l2=False, erb=False, order=4, max_centered=False, via_config=True),
    dict(kind="tri", scale=dict(name="linear", low_hz=0.0, slope_hz=2.0), num_filts=5, high=3000.0, low=100.0, rate=8000, analytic=True, via_config=True),
    # a NORMALISED sampling rate (1.0: frequencies in cycles per sample) with a thousand filters: vertices half a millihertz
    # apart, perfectly representable - and DFTs fine enough to put bins inside such filters
    dict(kind="tri", scale=dict(name="linear", low_hz=0.0, slope_hz=1.0), num_filts=1023, high=0.5, low=0.0, rate=1.0, analytic=False,
         widths=[4096, 2048]),
    dict(kind="fbank", scale=dict(name="mel"), num_filts=255, high=0.5, low=0.0, rate=1.0, analytic=True, widths=[4096]),
    # ... and banks whose accessor results were modified in place by the caller before anything else is asked of them
    dict(kind="tri", scale=dict(name="mel"), num_filts=6, high=3800.0, low=100.0, rate=8000, analytic=False, poke_accessors=True),
    dict(kind="tri", scale=dict(name="bark"), num_filts=9, high=None, low=20.0, rate=16000, analytic=True, poke_accessors=True),
    dict(kind="fbank", scale=dict(name="mel"), num_filts=6, high=3800.0, low=100.0, rate=8000, analytic=False, poke_accessors=True),
    dict(kind="gabor", scale=dict(name="mel"), num_filts=6, high=3800.0, low=100.0, rate=8000, l2=False, erb=False, poke_accessors=True),
    dict(kind="gammatone", scale=dict(name="mel"), num_filts=6, high=3800.0, low=100.0, rate=8000, l2=False, erb=False, order=4, max_centered=True, poke_accessors=True),
]


# ---------------------------------------------------------------------------------------------------
# oracle pieces


def must_reject(cfg):
    lo, hi, rate = cfg["low"], cfg["high"], cfg["rate"]
    return lo < 0 or (hi is not None and hi > 0 and (hi <= lo or hi > rate / 2 + 1))


def effective_high(cfg):
    """top of the range as documented: given high_hz (clamped to the Nyquist frequency, which the 1 Hz leeway allows
    to be exceeded), default: triangular = Nyquist; the other three classes use sampling_rate // 2."""
    rate = cfg["rate"]
    if cfg["high"] is None:
        return rate / 2 if cfg["kind"] == "tri" else float(math.floor(rate / 2))
    return min(cfg["high"], rate / 2)


def in_scope(cfg):
    lo, rate = cfg["low"], cfg["rate"]
    hi = effective_high(cfg)
    if not (0 <= lo < hi <= rate / 2):
        return False
    if hi - lo < 1e-3:
        return False  # narrower than 1 mHz: the vertices collapse in double precision (the theorems are over the reals)
    if cfg["high"] is not None and cfg["high"] <= 0:
        return False
    sc = cfg["scale"]
    if sc["name"] == "octave" and lo <= 0:
        return False
    if sc["name"] == "linear" and sc["slope_hz"] <= 0:
        return False
    return True


def gabor_sub_threshold(cfg, eps=5e-4):
    """documented Gabor impulse response peaks at 1/(sigma sqrt(2 pi)) (or sigma^-1/2 pi^-1/4 with scale_l2_norm):
    is some filter's peak below the effective-support threshold?"""
    h2s, s2h = own_scale(cfg["scale"])
    n, rate = cfg["num_filts"], cfg["rate"]
    s_lo, s_hi = h2s(cfg["low"]), h2s(effective_high(cfg))
    delta = (s_hi - s_lo) / (n + 1)
    bc = math.sqrt(math.pi) / 2 if cfg["erb"] else math.sqrt(0.3 * math.log(10))
    for i in range(n):
        eL, eR = s2h(s_lo + (i + 0.5) * delta), s2h(s_lo + (i + 1.5) * delta)
        sigma = bc / (math.pi * (eR - eL) / rate)
        peak = sigma ** -0.5 * math.pi ** -0.25 if cfg["l2"] else 1.0 / (sigma * math.sqrt(2 * math.pi))
        if peak < eps * (1 + 1e-9):
            return True
    return False


def doc_tri(l, c, r, f):
    if not (l < c < r):
        return float("nan")
    return max(0.0, min((f - l) / (c - l), (r - f) / (r - c)))


def mel(f):
    return 1127.0 * math.log1p(f / 700.0)


def doc_fbank(l, c, r, f):
    return math.sqrt(doc_tri(mel(l), mel(c), mel(r), mel(f))) if f > -700 else 0.0


def interp_log(mag2, x):
    """3-point Lagrange interpolation of log(mag2) at fractional bin x (periodic)"""
    W = len(mag2)
    k0 = int(round(x))
    d = x - k0
    ym, y0, yp = (math.log(max(mag2[(k0 + j) % W], 1e-300)) for j in (-1, 0, 1))
    return math.exp(y0 + d * (yp - ym) / 2 + d * d * (yp - 2 * y0 + ym) / 2)


def small(cfg, **extra):
    c = dict(cfg)
    c.update(extra)
    return c


def oracle_config(ctx, cfg, bank, raised, r, say=None):
    """property oracle on the implementation for one configuration. Returns documented edges (or None)."""
    kind = cfg["kind"]
    viol = ctx.violation if say is None else (lambda case, exp, got, text, tags=None: say("VIOLATION %s: expected %r got %r %s" % (text, exp, got, tags)))
    must = must_reject(cfg)
    if must:
        ctx.count("must_reject")
        if raised != "ValueError":
            viol(small(cfg), "ValueError", raised or "accepted",
                 "low_hz<0, or a positive high_hz not above low_hz or more than 1 Hz above Nyquist, raises ValueError",
                 tags=dict(clause="range_rejected", kind=kind, got=raised or "accepted", high_is_none=cfg["high"] is None))
        return None
    if raised:
        if in_scope(cfg):
            if raised == "ValueError" and kind != "tri" and cfg["high"] is not None and cfg["high"] > math.floor(cfg["rate"] / 2):
                # high_hz in (floor(rate/2), rate/2]: rejected by the `sampling_rate // 2` style of validation
                ctx.count("valid_range_rejected:" + kind)
            elif raised == "ValueError" and kind == "gabor" and gabor_sub_threshold(cfg):
                # int(np.ceil(nan)): a filter so narrow that even the peak of its impulse response is below
                # EFFECTIVE_SUPPORT_THRESHOLD has no temporal support (modelled; outside the property's clauses)
                ctx.count("ctor_fails_sub_threshold_filter:gabor")
                ctx.gap_cases += 1
            else:
                viol(small(cfg), "a bank", raised, "constructor raises on a valid configuration", tags=dict(clause="ctor_raises", kind=kind, exc=raised))
        else:
            ctx.count("out_of_scope")
        return None
    if not in_scope(cfg):
        ctx.count("out_of_scope")
        return None
    rate, n, lo = cfg["rate"], cfg["num_filts"], cfg["low"]
    hi = effective_high(cfg)
    if cfg["high"] is None and kind != "tri" and hi != rate / 2:
        ctx.count("default_high_below_nyquist")
    h2s, s2h = own_scale(cfg["scale"])
    s_lo, s_hi = h2s(lo), h2s(hi)
    delta = (s_hi - s_lo) / (n + 1)
    stol = 1e-7 * (abs(s_hi - s_lo) + abs(s_lo) + 1.0)
    ftol = 1e-7 * rate
    cs = [float(c) for c in bank.centers_hz]
    sup = [(float(a), float(b)) for a, b in bank.supports_hz]
    if len(cs) != n or len(sup) != n or bank.num_filts != n:
        viol(small(cfg), n, [len(cs), len(sup)], "num_filts filters", tags=dict(clause="count", kind=kind))
        return None
    edges = None
    if kind in ("tri", "fbank"):
        verts = [sup[0][0]] + cs + [sup[-1][1]]
        for i in range(n):
            if abs(sup[i][0] - verts[i]) > ftol or abs(sup[i][1] - verts[i + 2]) > ftol:
                viol(small(cfg, filt=i), [verts[i], verts[i + 2]], list(sup[i]), "supports_hz[i] = (vertex i, vertex i+2)",
                     tags=dict(clause="supports_are_vertices", kind=kind))
                break
        for i, v in enumerate(verts):
            want = s_lo + i * delta
            got = h2s(v)
            if not abs(got - want) <= stol:
                viol(small(cfg, vertex=i), want, got, "vertex i sits at scale_low + i*(scale_high-scale_low)/(num_filts+1)",
                     tags=dict(clause="equal_spacing", kind=kind))
                break
        if abs(verts[0] - lo) > ftol or abs(verts[-1] - hi) > ftol:
            viol(small(cfg), [lo, hi], [verts[0], verts[-1]], "first vertex = low_hz, last vertex = high_hz",
                 tags=dict(clause="vertex_ends", kind=kind))
        edges = verts
    else:
        edges = [s2h(s_lo + (i + 0.5) * delta) for i in range(n + 1)]
        for i in range(n):
            want = (edges[i] + edges[i + 1]) / 2
            if not abs(cs[i] - want) <= ftol:
                viol(small(cfg, filt=i), want, cs[i],
                     "centre i is midway between band edges at scale_low + (i+1/2)*delta and scale_low + (i+3/2)*delta",
                     tags=dict(clause="equal_spacing", kind=kind))
                break
    for i in range(n):
        if i and not cs[i] > cs[i - 1]:
            viol(small(cfg, filt=i), "increasing", [cs[i - 1], cs[i]], "centers_hz strictly increasing", tags=dict(clause="centers_mono", kind=kind))
            break
        if not (sup[i][0] < cs[i] < sup[i][1]):
            viol(small(cfg, filt=i), "lo < centre < hi", [sup[i][0], cs[i], sup[i][1]], "centre inside supports_hz",
                 tags=dict(clause="center_in_support", kind=kind))
            break
    if kind in ("gabor", "gammatone") and cfg.get("l2"):
        ctx.gap_cases += 1  # support membership proved for the default normalisation only
    if kind in ("tri", "fbank"):
        oracle_triangle(ctx, cfg, bank, verts, r, viol)
    else:
        oracle_gain(ctx, cfg, bank, edges, cs, sup, r, viol)
    return edges


def oracle_triangle(ctx, cfg, bank, verts, r, viol):
    kind, rate, n = cfg["kind"], cfg["rate"], cfg["num_filts"]
    doc = doc_tri if kind == "tri" else doc_fbank
    widths = [r.choice([8, 16, 31, 32, 50]), r.choice([64, 100, 127, 128, 256]), r.choice([257, 400, 512, 1000, 1024])]
    # the same bank object is then asked for widths whose OUTPUT LENGTHS collide (half of an even width, half of the
    # next odd width, full response of that length): anything cached per bank must be keyed by the width
    w2 = 2 * r.randrange(8, 40)
    widths += [w2, w2 + 1, w2 // 2 + 1]
    widths += list(cfg.get("widths", []))     # widths a fixed configuration asks for (fine enough to put bins inside its filters)
    filts = sorted({0, n - 1, r.randrange(n)})
    for W in widths:
        for i in filts:
            l, c, rr = verts[i], verts[i + 1], verts[i + 2]
            for half in ((True, False) if W == w2 + 1 else (False, True)):
                try:
                    res = np.asarray(bank.get_frequency_response(i, W, half=half))
                except Exception as e:
                    viol(small(cfg, filt=i, width=W, half=half), "a response", type(e).__name__, "get_frequency_response raises",
                         tags=dict(clause="response_raises", kind=kind, exc=type(e).__name__))
                    continue
                dft = ((W + 1) // 2 if W % 2 else W // 2 + 1) if half else W
                if res.shape != (dft,):
                    viol(small(cfg, filt=i, width=W, half=half), dft, list(res.shape), "response length", tags=dict(clause="response_len", kind=kind))
                    continue
                want = np.empty(dft)
                for k in range(dft):
                    if (not half) and (not cfg["analytic"]) and 2 * k > W:
                        want[k] = doc(l, c, rr, rate * (W - k) / W)
                    else:
                        want[k] = doc(l, c, rr, rate * k / W)
                # the documented response is continuous: compare with a tolerance in value that also
                # covers a bin sitting within round-off of a vertex (slope <= 1/(c-l), 1/(r-c))
                tol = 1e-9 + 1e-9 * rate / min(c - l, rr - c)
                if kind == "fbank":
                    bad = np.argwhere(np.abs(res ** 2 - want ** 2) > 10 * tol)
                else:
                    bad = np.argwhere(np.abs(res - want) > tol)
                ctx.count("triangle_bins", dft)
                if len(bad):
                    k = int(bad[0][0])
                    viol(small(cfg, filt=i, width=W, half=half, bin=k), float(want[k]), float(res[k]),
                         "response at every DFT bin equals the documented triangle (linear in Hz / sqrt of triangle in mel), 0 outside",
                         tags=dict(clause="triangle", kind=kind, half=half))
            try:
                b0, tr = bank.get_truncated_response(i, W)
                tr = np.asarray(tr)
                full = np.asarray(bank.get_frequency_response(i, W, half=True))
                rec = np.zeros(len(full))
                rec[b0:b0 + len(tr)] = tr[: max(0, len(full) - b0)]
                if not np.allclose(rec, full, rtol=0, atol=1e-12):
                    k = int(np.argwhere(~np.isclose(rec, full, rtol=0, atol=1e-12))[0][0])
                    viol(small(cfg, filt=i, width=W, bin=k), float(full[k]), float(rec[k]),
                         "truncated response equals the documented triangle at its bins", tags=dict(clause="triangle_truncated", kind=kind))
            except Exception as e:
                viol(small(cfg, filt=i, width=W), "a truncated response", type(e).__name__, "get_truncated_response raises",
                     tags=dict(clause="response_raises", kind=kind, exc=type(e).__name__))
    # peak: the centre has gain 1 (documented formula) - checked on a width that puts a bin on the centre when rational
    for i in filts:
        l, c, rr = verts[i], verts[i + 1], verts[i + 2]
        if abs(doc(l, c, rr, c) - 1.0) > 1e-12:
            viol(small(cfg, filt=i), 1.0, doc(l, c, rr, c), "documented gain at the centre is 1", tags=dict(clause="peak", kind=kind))


def doc_span_hz(cfg, eL, eR, eps=5e-4):
    """width (Hz) of the region where the *documented* response of the filter between band edges eL, eR
    exceeds EFFECTIVE_SUPPORT_THRESHOLD - decides the property's "support spans less than half the
    sampling rate" independently of the implementation's own supports_hz."""
    rate = cfg["rate"]
    dw = 2 * math.pi * (eR - eL) / rate
    if cfg["kind"] == "gabor":
        bc = math.sqrt(math.pi) / 2 if cfg["erb"] else math.sqrt(0.3 * math.log(10))
        sigma = bc / (dw / 2)
        peak = math.sqrt(2 * sigma * math.sqrt(math.pi)) if cfg["l2"] else 1.0
        half = math.sqrt(2 * math.log(peak / eps)) / sigma if peak > eps else 0.0
    else:
        n = cfg["order"]
        if cfg["erb"]:
            K = 2.0 ** (2 * n - 2) * math.factorial(n - 1) ** 2 / (math.pi * math.factorial(2 * n - 2))
        else:
            K = 1.0 / (2 * math.sqrt(2 ** (1.0 / n) - 1))
        alpha = K * dw
        peak = 1.0
        if cfg["l2"]:
            peak = math.sqrt((2 * alpha) ** (2 * n - 1) / math.factorial(2 * n - 2)) * math.factorial(n - 1) / alpha ** n
        half = alpha * math.sqrt((peak / eps) ** (2.0 / n) - 1) if peak > eps else 0.0
    return 2 * half * rate / (2 * math.pi)


def oracle_gain(ctx, cfg, bank, edges, cs, sup, r, viol):
    kind, rate, n = cfg["kind"], cfg["rate"], cfg["num_filts"]
    l2, erb = cfg["l2"], cfg["erb"]
    filts = sorted({0, n - 1, r.randrange(n), r.randrange(n)})
    for i in filts:
        eL, eR, c = edges[i], edges[i + 1], cs[i]
        if not doc_span_hz(cfg, eL, eR) < rate / 2:
            ctx.count("out_of_scope_wide_filter")
            continue
        if not (sup[i][1] - sup[i][0]) < rate / 2:
            ctx.count("supports_hz_wider_than_documented_support")
        W = 256
        while rate / W > (eR - eL) / 16 and W < 8192:
            W *= 2
        if rate / W > (eR - eL) / 8:
            ctx.count("too_narrow_for_grid")
            continue
        H = np.asarray(bank.get_frequency_response(i, W))
        m2 = np.abs(H) ** 2
        case = small(cfg, filt=i, grid=W)
        ctx.count("dense_grid:" + kind)
        kc = c * W / rate
        peak2 = interp_log(m2, kc)
        kmax = int(np.argmax(m2))
        if abs(kmax - kc) > 1.0:
            viol(case, c, kmax * rate / W, "response peaks at the centre frequency (dense grid)", tags=dict(clause="peak_location", kind=kind))
        if not l2:
            if not (abs(math.sqrt(peak2) - 1.0) <= 3e-3 and math.sqrt(m2[kmax]) <= 1.0 + 3e-3):
                viol(case, 1.0, [math.sqrt(peak2), math.sqrt(m2[kmax])], "gain 1 at the centre, at most 1 elsewhere (dense grid)",
                     tags=dict(clause="peak_gain", kind=kind))
        else:
            lo_s, hi_s = bank.supports[i]
            need = int(hi_s - lo_s) + 2
            Wt = 256
            while Wt < need:
                Wt *= 2
            if Wt > 32768:
                ctx.count("l2_support_too_long")
            else:
                h = np.asarray(bank.get_impulse_response(i, Wt))
                nrm = float(np.sum(np.abs(h) ** 2))
                ctx.count("l2_norm:" + kind)
                if not abs(nrm - 1.0) <= 5e-3:
                    viol(small(case, ir_width=Wt), 1.0, nrm, "with scale_l2_norm the impulse response has unit L2 norm",
                         tags=dict(clause="l2_norm", kind=kind))
        if not erb:
            target = 10 ** (-0.3) if kind == "gabor" else 0.5
            for e in (eL, eR):
                g = interp_log(m2, e * W / rate) / peak2
                if not abs(g - target) <= 5e-3:
                    viol(small(case, edge=e), target, g,
                         "power gain at the band edge shared with the neighbour is the documented 3 dB point (relative to the peak)",
                         tags=dict(clause="3dB", kind=kind))
                    break
        else:
            erb_hz = float(np.sum(m2)) * (rate / W) / peak2
            if not abs(erb_hz - (eR - eL)) <= 5e-3 * (eR - eL):
                viol(case, eR - eL, erb_hz, "equivalent rectangular bandwidth equals the spacing of the filter's band edges (numeric integration)",
                     tags=dict(clause="erb", kind=kind))


# ---------------------------------------------------------------------------------------------------
# correspondence


def parse_floats(tok):
    return [] if tok == ["-"] else [common.bits_to_float(t) for t in tok]


def split_bar(s):
    parts, cur = [], []
    for t in s.split():
        if t == "|":
            parts.append(cur)
            cur = []
        else:
            cur.append(t)
    parts.append(cur)
    return parts


def cmp_list(a, b, scale):
    if len(a) != len(b):
        return "length %d vs %d" % (len(a), len(b))
    for i, (x, y) in enumerate(zip(a, b)):
        if not common.close(x, y, rel=1e-10, abs_=1e-10 * scale):
            return "index %d: %r vs %r" % (i, x, y)
    return None


def corr_ctor(ctx, cfg, bank, raised, out):
    if out == "bad-op":
        ctx.mismatch(small(cfg), out, raised, "driver rejected the ctor line")
        return
    decisive = in_scope(cfg) or must_reject(cfg)
    if out.startswith("err:"):
        if raised != out[4:]:
            if raised and not decisive:
                ctx.count("degenerate_ctor_outcome")  # e.g. NaN / inf layouts of out-of-scope ranges
            else:
                ctx.mismatch(small(cfg), out, raised or "accepted", "constructor outcome: model vs implementation")
        return
    if raised:
        if decisive:
            ctx.mismatch(small(cfg), "ok", raised, "constructor outcome: model vs implementation")
        else:
            ctx.count("degenerate_ctor_outcome")
        return
    if not in_scope(cfg):
        # accepted but outside the property (high_hz = 0, low above the default top, sub-mHz ranges, octave from 0 Hz):
        # NaN / ill-conditioned layouts; only the constructor outcome is compared
        ctx.count("out_of_scope_layout_not_compared")
        return
    parts = split_bar(out[3:])
    rate = float(cfg["rate"])
    cs = [float(c) for c in bank.centers_hz]
    sup = [float(v) for p in bank.supports_hz for v in p]
    if any(v != v for v in cs + sup):
        ctx.count("nan_layout")
        return
    why = cmp_list(parse_floats(parts[0]), cs, rate) or cmp_list(parse_floats(parts[1]), sup, rate)
    if why:
        ctx.mismatch(small(cfg), None, None, "centers_hz / supports_hz: " + why)
        return
    if cfg["kind"] == "gabor":
        ints = [] if parts[2] == ["-"] else [int(v) for v in parts[2][0].split(",")]
        impl = [int(v) for p in bank.supports for v in p]
        if ints != impl:
            # int(ceil(x)) of floats that differ in the last place may differ by one
            if len(ints) == len(impl) and all(abs(a - b) <= 1 for a, b in zip(ints, impl)):
                ctx.count("supports_off_by_one_at_integer")
            else:
                ctx.mismatch(small(cfg), ints, impl, "supports (samples)")
        if (parts[3] == ["1"]) != bool(bank.is_analytic):
            ctx.mismatch(small(cfg), parts[3], bool(bank.is_analytic), "is_analytic")
    elif cfg["kind"] == "gammatone":
        if (parts[2] == ["1"]) != bool(bank.is_analytic):
            ctx.mismatch(small(cfg), parts[2], bool(bank.is_analytic), "is_analytic")


def corr_resp(ctx, cfg, bank, filt, W, half, out):
    case = small(cfg, filt=filt, width=W, half=half)
    try:
        res = np.asarray(bank.get_frequency_response(filt, W, half=half))
        impl_err = None
    except Exception as e:
        impl_err = type(e).__name__
    if out == "bad-op":
        ctx.mismatch(case, out, impl_err, "driver rejected the resp line")
        return
    if out.startswith("err:"):
        if impl_err != out[4:]:
            ctx.mismatch(case, out, impl_err or "a response", "response outcome: model vs implementation")
        return
    if impl_err:
        ctx.mismatch(case, "ok", impl_err, "response outcome: model vs implementation")
        return
    vals = parse_floats(out[3:].split())
    if np.iscomplexobj(res):
        impl = [v for z in res for v in (float(z.real), float(z.imag))]
    else:
        impl = [float(v) for v in res]
    if any(v != v or abs(v) == float("inf") for v in impl):
        ctx.count("nan_response")
        return
    scale = max([1.0] + [abs(v) for v in impl])
    why = cmp_list(vals, impl, scale)
    if why:
        ctx.mismatch(case, None, None, "get_frequency_response at DFT bins: " + why)


def construct(cfg):
    try:
        return build(cfg), None
    except Exception as e:
        return None, type(e).__name__


def run(ctx, driver):
    r = ctx.rng
    n_valid = ctx.scale(450, 2500)
    n_bound = ctx.scale(150, 600)
    n_bad = ctx.scale(220, 800)
    cfgs = [dict(c) for c in CORPUS]
    cfgs += [gen_cfg(r, "valid") for _ in range(n_valid)]
    cfgs += [gen_cfg(r, "boundary") for _ in range(n_bound)]
    cfgs += [gen_cfg(r, "invalid") for _ in range(n_bad)]
    lines, jobs = [], []
    for cfg in cfgs:
        if ctx.out_of_time():
            break
        bank, raised = construct(cfg)
        ctx.case(small(cfg), nontrivial=bank is not None, kind="ctor:%s:%s" % (cfg["kind"], raised or "ok"))
        ctx.count("scale:" + cfg["scale"]["name"])
        oracle_config(ctx, cfg, bank, raised, r)
        lines.append("ctor " + cfg_line(cfg))
        jobs.append(("ctor", cfg, bank, raised))
        if bank is not None and in_scope(cfg):
            n = cfg["num_filts"]
            for filt in sorted({0, n - 1, r.randrange(n)}):
                for _ in range(2 if ctx.tier == "quick" else 3):
                    W = r.choice([8, 9, 16, 31, 32, 64, 100, 127, 128, 257, 512])
                    half = r.random() < 0.5
                    lines.append("resp %s %d %d %d" % (cfg_line(cfg), filt, W, int(half)))
                    jobs.append(("resp", cfg, bank, (filt, W, half)))
    outs = driver.run(lines)
    ctx.corr_lines += len(lines)
    ctx.count("correspondence_lines", len(lines))
    for (what, cfg, bank, extra), out in zip(jobs, outs):
        if what == "ctor":
            corr_ctor(ctx, cfg, bank, extra, out)
        else:
            corr_resp(ctx, cfg, bank, extra[0], extra[1], extra[2], out)
            ctx.count("resp_corr:" + cfg["kind"])


def run_oracle_only(ctx):
    r = ctx.rng
    for cfg in [dict(c) for c in CORPUS] + [gen_cfg(r, s) for s in ("valid", "boundary", "invalid") for _ in range(ctx.scale(60, 600))]:
        bank, raised = construct(cfg)
        ctx.case(small(cfg), nontrivial=bank is not None, kind="ctor:%s:%s" % (cfg["kind"], raised or "ok"))
        oracle_config(ctx, cfg, bank, raised, r)


def search(ctx, broken):
    """a proof obligation or the correspondence broke without a failing input so far: look harder with the oracle"""
    ctx.search_mode = True
    run_oracle_only(ctx)


def replay(rp):
    import random

    case = dict(rp.get("case") or {})
    print(common.canon(case))
    keys = ("kind", "scale", "num_filts", "high", "low", "rate", "analytic", "l2", "erb", "order", "max_centered",
            "scale_prev", "poke_accessors", "via_config")
    cfg = {k: case[k] for k in keys if k in case}
    if "kind" not in cfg:
        print("not a configuration replay:", rp.get("kind"), rp.get("broken", "")[:3] if isinstance(rp.get("broken"), list) else "")
        return 0
    bank, raised = construct(cfg)
    print("impl: constructor ->", raised or "ok")
    if bank is not None:
        print("impl: centers_hz =", [float(c) for c in bank.centers_hz][:8])
        print("impl: supports_hz =", [(float(a), float(b)) for a, b in bank.supports_hz][:8])
    ctx = common.Ctx(PROP, "quick", 0, 600)
    found = []
    oracle_config(ctx, cfg, bank, raised, random.Random(0), say=found.append)
    # also with the recorded filter first, exhaustively over the filters
    for m in found:
        print("oracle:", m)
    if not found:
        c2 = common.Ctx(PROP, "quick", 0, 600)
        for seed in range(1, 6):
            oracle_config(c2, cfg, bank, raised, random.Random(seed))
        for v in c2.violations[:3]:
            print("oracle: VIOLATION", v["oracle"], "expected", v["expected"], "got", v["got"], v["tags"])
        found = c2.violations
    try:
        lines = ["ctor " + cfg_line(cfg)]
        if "filt" in case and "width" in case:
            lines.append("resp %s %d %d %d" % (cfg_line(cfg), case["filt"], case["width"], int(bool(case.get("half", False)))))
        for ln, o in zip(lines, common.Driver(PROP).run(lines)):
            toks = o.split()
            shown = [("%.6g" % common.bits_to_float(t)) if t.isdigit() and len(t) > 12 else t for t in toks[:24]]
            print("model:", ln.split()[0], " ".join(shown), "..." if len(toks) > 24 else "")
    except Exception as e:  # the model is optional for a replay
        print("model: not available (%s)" % type(e).__name__)
    print("recorded oracle:", rp.get("oracle"), "expected", rp.get("expected"), "got", rp.get("got"))
    print("replay verdict:", "property violated on this input" if found else "no violation on this input")
    return 1 if found else 0

"""Tracer bank for the short-integration computer (DESIGN §2.4, `IntFIR`).

IntFIR      a LinearFilterBank whose impulse responses are explicit integer (or Gaussian-integer)
            taps on chosen half-open supports ``(left, right)``: ``IR_i(t) = taps_i[t - left_i]`` for
            ``left_i <= t < right_i``, zero elsewhere.  ``get_impulse_response(i, width)`` periodises
            exactly like the library banks do (``res[t mod width] += IR(t)``), so with
            ``dft_size == max_support`` the roll in ``ShortIntegrationFrameComputer.__init__`` wraps the
            way it does for Gabor / gammatone banks.
            ``supports_hz`` is a knob: the computer's DFT size is
            ``max(frame_length, ceil(2*rate/min(support_hz width)))``; ``dft_floor`` chooses that second
            term, so padded / unpadded / oversized DFTs can all be reached through the public constructor.

prepared_taps(...)  independent re-statement (index formula, no np.roll) of what ``__init__`` turns the
            bank into: per filter the M = max_support taps ``h_i[0..M)`` that meet the signal.
"""
import numpy as np

from pydrobert.speech.filters import LinearFilterBank

from .tracers import IntWindow  # noqa: F401  (re-exported for the C03 harness)


class IntFIR(LinearFilterBank):
    aliases = set()

    def __init__(self, filters, rate=1000.0, real=True, zero_phase=False, dft_floor=2):
        """filters: list of (left, taps); right = left + len(taps).  taps: ints, or (re, im) pairs."""
        self._filters = []
        for left, taps in filters:
            t = np.asarray([complex(*v) if isinstance(v, (tuple, list)) else complex(v) for v in taps])
            self._filters.append((int(left), t))
        self._rate = float(rate)
        self._real = bool(real)
        self._zero_phase = bool(zero_phase)
        self._dft_floor = int(dft_floor)

    is_real = property(lambda self: self._real)
    is_analytic = property(lambda self: not self._real)
    is_zero_phase = property(lambda self: self._zero_phase)
    num_filts = property(lambda self: len(self._filters))
    sampling_rate = property(lambda self: self._rate)

    @property
    def supports(self):
        return tuple((left, left + len(t)) for left, t in self._filters)

    @property
    def supports_hz(self):
        # width w  ->  the computer asks for a DFT of at least ceil(2*rate/w) points
        w = 2.0 * self._rate / self._dft_floor
        return tuple((0.0, w) for _ in self._filters)

    def get_impulse_response(self, filt_idx, width):
        left, taps = self._filters[filt_idx]
        res = np.zeros(width, dtype=np.float64 if self._real else np.complex128)
        for j, v in enumerate(taps):
            res[(left + j) % width] += v.real if self._real else v
        return res

    def get_frequency_response(self, filt_idx, width, half=False):
        fr = np.fft.fft(self.get_impulse_response(filt_idx, width))
        if half:
            return fr[: (width + width % 2) // 2 + 1 - width % 2]
        return fr

    def get_truncated_response(self, filt_idx, width):
        return 0, self.get_frequency_response(filt_idx, width)


def derived_params(supports, S, centered, pad, dft_floor):
    """(M, tr, D) by the formulas of ``ShortIntegrationFrameComputer.__init__`` (integers only)."""
    if centered:
        M = max(r - l for l, r in supports)
        tr = M // 2
    else:
        tr = max([0] + [-l for l, r in supports])
        M = max([0] + [r for l, r in supports]) + tr
    L = M + S - 1
    D = max(L, dft_floor)
    if pad:
        p = 1
        while p < D:
            p *= 2
        D = p
    return M, tr, D


def prepared_taps(filters, M, tr, D, centered, include_energy):
    """Per filter the first M cells of the periodised, rolled impulse response; complex entries as
    (re, im) integer pairs.  With include_energy the unit impulse at index `tr` comes first."""
    out = []
    if include_energy:
        # dirac_filter[tr] = 1 in a D-cell buffer (not clamped by the code); tr < M whenever some filter
        # has a positive right support, so it is an M-tap filter like the others
        assert tr < M, (tr, M)
        out.append([(1, 0) if j == tr else (0, 0) for j in range(M)])
    for left, taps in filters:
        right = left + len(taps)
        shift = (tr - (left + right) // 2 + 1) if centered else tr
        cells = [[0, 0] for _ in range(D)]
        for j, v in enumerate(taps):
            re, im = (v if isinstance(v, (tuple, list)) else (v, 0))
            c = cells[(left + j + shift) % D]
            c[0] += int(re)
            c[1] += int(im)
        out.append([tuple(c) for c in cells[:M]])
    return out

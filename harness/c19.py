"""C19 - scaling functions are strictly increasing and exactly invertible."""
import math

import numpy as np

from . import common
from .translate import scales as tr

PROP = "C19"
MODULES = ["PdsVerif.Props.C19"]
MODEL_MODULES = ["PdsVerif.Model.ScalesDrv"]
REQUIRED = [
    "PdsVerif.C19." + n
    for n in """linear_left_inv linear_right_inv linear_h2s_strictMono linear_s2h_strictMono
    octave_left_inv octave_right_inv octave_h2s_strictMonoOn octave_s2h_strictMono octave_rejects_nonpos
    mel_left_inv mel_right_inv mel_h2s_strictMonoOn mel_s2h_strictMono mel_1000
    bark_left_inv bark_right_inv bark_h2s_strictMonoOn bark_s2h_strictMonoOn
    bark_h2s_continuousOn bark_s2h_continuousOn corr_breakpoints bark_branches_agree""".split()
]
RULE = (
    "frequencies drawn log-uniformly and uniformly from [0,1e5] Hz, densely around the Bark break-points "
    "(204.2 Hz, 6542.9 Hz) and around 0; scale values from the image; linear/octave parameters random. "
    "A case is (function, parameters, argument); distinct by value; all are non-trivial."
)
TRUSTED = [
    "translator for scales.py (straight-line arithmetic, if-chains); theorems are over the generated definitions at the reals",
    "Float correspondence: generated definitions at Float vs the implementation at 1e-12 relative (libm log/exp/log2/exp2 differences)",
]
ASSUMPTIONS = [
    "domain hypotheses forced by the proofs: mel f > -700, Bark f > -1960 and scale below the pole 27.6396, octave f > 0, linear slope != 0 (slope > 0 for monotonicity)",
    "float round-off of the inverse (about 1e-13 relative) is sampled, not proved",
]


def translate(repo):
    files, _ = tr.generate(repo)
    return files


def scale_objects():
    from pydrobert.speech import scales

    return scales


def freq_grid(ctx, n):
    r = ctx.rng
    xs = [0.0, 1e5, 1000.0, 204.2, 204.3, 6542.8, 6542.9, 1e-9, 700.0, 1960.0]
    bp = [204.2308, 6542.847]  # z=2, z=20.1
    while len(xs) < n:
        u = r.random()
        if u < 0.3:
            xs.append(r.uniform(0, 1e5))
        elif u < 0.6:
            xs.append(10 ** r.uniform(-6, 5))
        elif u < 0.9:
            b = r.choice(bp)
            xs.append(b * (1 + r.uniform(-1, 1) * 10 ** r.uniform(-12, -1)))
        else:
            xs.append(r.uniform(0, 50))
    return xs


def run(ctx, driver):
    S = scale_objects()
    r = ctx.rng
    n = ctx.scale(1500, 60000)
    cases = []  # (fn, params, x, impl_value)
    objs = []
    objs.append(("mel", [], S.MelScaling()))
    objs.append(("bark", [], S.BarkScaling()))
    # the same scales as a configuration names them: resolved through the alias registry once the whole package is
    # imported (any subclass registered anywhere under these aliases is what users get)
    import importlib
    for m in ("filters", "compute", "pre", "post", "util", "corpus", "command_line"):
        try:
            importlib.import_module("pydrobert.speech." + m)
        except Exception:
            ctx.count("import_failed:" + m)
    for name, al, args in (("mel", "mel", []), ("bark", "bark", []), ("linear", "linear", [20.0, 0.5]), ("octave", "octave", [440.0])):
        try:
            o = S.ScalingFunction.from_alias(al, *args)
        except Exception as e:
            ctx.violation(dict(scale=name, via="registry"), "an object", "%s: %s" % (type(e).__name__, e), "the documented alias resolves",
                          tags=dict(scale=name, clause="registry_resolves"))
            continue
        objs.append((name, args, o))
    # fixed parameter corners first (never left to the RNG): tiny positive octave references (both directions must
    # clamp low_hz the same way), the clamp value itself, ordinary ones; linear offsets / slopes
    for lo in (1e-12, 2.5e-11, 1e-10, 1.0, 440.0):
        objs.append(("octave", [lo], S.OctaveScaling(lo)))
    for low, slope in ((0.0, 1.0), (20.0, 0.5), (-5.0, 3.0)):
        objs.append(("linear", [low, slope], S.LinearScaling(low, slope)))
    for _ in range(6 if ctx.tier == "quick" else 40):
        low = r.choice([0.0, 20.0, -5.0, r.uniform(0, 500)])
        slope = r.choice([1.0, 0.5, 3.0, 10 ** r.uniform(-3, 3)])
        objs.append(("linear", [low, slope], S.LinearScaling(low, slope)))
        lo = r.choice([1e-10, 1.0, 20.0, 440.0, 10 ** r.uniform(-9, 4)])
        objs.append(("octave", [lo], S.OctaveScaling(lo)))
    fs = freq_grid(ctx, n)
    # --- oracle on the implementation + cases for correspondence
    for name, params, o in objs:
        sub = fs if name in ("mel", "bark") else fs[:: max(1, len(objs) // 2)]
        prev = None
        for f in sorted(sub):
            if name == "octave" and f < params[0]:
                continue
            case = dict(scale=name, params=params, hertz=f)
            ctx.case(case, kind=name)
            try:
                # f is a built-in Python float here (the grid holds 0.0 and 1e5, the ends of the domain)
                s = float(o.hertz_to_scale(f))
                back = float(o.scale_to_hertz(s))
            except Exception as e:
                ctx.violation(case, "a number", "%s: %s" % (type(e).__name__, e), "the maps are defined on the whole domain [0, 1e5] Hz",
                              tags=dict(scale=name, clause="raises"))
                continue
            cases.append((name + "_h2s", params, f, s))
            cases.append((name + "_s2h", params, s, back))
            tol = 1e-9 * max(1.0, abs(f))
            if not (abs(back - f) <= tol):
                ctx.violation(case, f, back, "scale_to_hertz(hertz_to_scale(f)) == f",
                              tags=dict(scale=name, clause="left_inv"))
            s2 = float(o.hertz_to_scale(back))
            if not (abs(s2 - s) <= 1e-9 * max(1.0, abs(s))):
                ctx.violation(case, s, s2, "hertz_to_scale(scale_to_hertz(s)) == s",
                              tags=dict(scale=name, clause="right_inv"))
            if prev is not None and f > prev[0] * (1 + 1e-9) + 1e-9:
                # strictly increasing (compare only points separated beyond round-off)
                if not (s > prev[1]):
                    ctx.violation(dict(case, prev=prev[0]), "h2s(prev) < h2s(f)", [prev[1], s],
                                  "hertz_to_scale strictly increasing", tags=dict(scale=name, clause="mono_h2s"))
                # continuity / no jump: |ds| bounded by a Lipschitz bound on this scale
                lip = lipschitz(name, params, prev[0])
                if abs(s - prev[1]) > lip * (f - prev[0]) * 1.0001 + 1e-9:
                    ctx.violation(dict(case, prev=prev[0]), "no jump", [prev[1], s],
                                  "hertz_to_scale continuous (Lipschitz bound between neighbours)",
                                  tags=dict(scale=name, clause="continuity"))
            prev = (f, s)
        # s2h strictly increasing on a scale grid from the image
        svals = sorted({float(o.hertz_to_scale(f)) for f in sub if not (name == "octave" and f < params[0])})
        prevh = None
        for s in svals:
            h = float(o.scale_to_hertz(s))
            if prevh is not None and s > prevh[0] + 1e-7 * max(1, abs(s)):
                if not (h > prevh[1]):
                    ctx.violation(dict(scale=name, params=params, s=s, prev=prevh[0]), "s2h increasing",
                                  [prevh[1], h], "scale_to_hertz strictly increasing",
                                  tags=dict(scale=name, clause="mono_s2h"))
            prevh = (s, h)
    # instance churn: scales built one after another, each dropped before the next is built (CPython hands the freed
    # address - `id()` - to the next object), evaluated at the same frequencies: a map depends on its object's
    # parameters only, never on what an earlier object computed
    churn = [("octave", [440.0]), ("octave", [55.0]), ("linear", [20.0, 0.5]), ("linear", [0.0, 3.0]), ("octave", [110.0]),
             ("linear", [20.0, 0.25]), ("octave", [27.5]), ("linear", [-5.0, 3.0])] * 3
    pts = [55.0, 439.0, 440.0, 441.0, 1000.0, 20.0]
    keep = {}
    for name, params in churn:   # long-lived references, one per parameter set
        k = (name, tuple(params))
        if k not in keep:
            keep[k] = (S.OctaveScaling if name == "octave" else S.LinearScaling)(*params)
    import gc
    for name, params in churn:
        o = (S.OctaveScaling if name == "octave" else S.LinearScaling)(*params)
        ref = keep[(name, tuple(params))]
        for f in pts:
            if name == "octave" and f < params[0]:
                continue
            case = dict(scale=name, params=params, hertz=f, churn=True)
            ctx.case(case, kind="churn:" + name)
            try:
                s = float(o.hertz_to_scale(f))
                back = float(o.scale_to_hertz(s))
                s_ref = float(ref.hertz_to_scale(f))
                back_ref = float(ref.scale_to_hertz(s_ref))
            except Exception as e:
                ctx.violation(case, "a number", "%s: %s" % (type(e).__name__, e), "the maps are defined on the whole domain",
                              tags=dict(scale=name, clause="raises"))
                continue
            cases.append((name + "_h2s", params, f, s))
            cases.append((name + "_s2h", params, s, back))
            if not (abs(back - f) <= 1e-9 * max(1.0, abs(f))):
                ctx.violation(case, f, back, "scale_to_hertz(hertz_to_scale(f)) == f", tags=dict(scale=name, clause="left_inv"))
            if s != s_ref or back != back_ref:
                ctx.violation(case, [s_ref, back_ref], [s, back], "two scales with the same parameters compute the same values "
                              "(whatever other scale objects existed before)", tags=dict(scale=name, clause="instance_independent"))
        del o
        gc.collect()
    # public parameters re-assigned after construction (`low_hz`, `slope_hz` are documented attributes): the object then IS
    # the scale with the new parameters, in both directions
    for name, p0, p1 in (("linear", [0.0, 1.0], [0.0, 0.5]), ("linear", [20.0, 0.5], [5.0, 2.0]), ("octave", [440.0], [55.0]),
                         ("octave", [20.0], [27.5])):
        mk = S.OctaveScaling if name == "octave" else S.LinearScaling
        o = mk(*p0)
        float(o.hertz_to_scale(1000.0)), float(o.scale_to_hertz(1.0))     # used before it is retuned
        try:
            if name == "octave":
                o.low_hz = p1[0]
            else:
                o.low_hz, o.slope_hz = p1
        except AttributeError:      # parameters made read-only: nothing to retune, nothing to check
            ctx.count("not_retunable:" + name)
            continue
        ref = mk(*p1)
        for f in (55.0, 100.0, 441.0, 1000.0, 3999.5):
            case = dict(scale=name, params=p1, built_with=p0, hertz=f, retuned=True)
            ctx.case(case, kind="retuned:" + name)
            try:
                s_, sr = float(o.hertz_to_scale(f)), float(ref.hertz_to_scale(f))
                b_, br = float(o.scale_to_hertz(s_)), float(ref.scale_to_hertz(sr))
            except Exception as e:
                ctx.violation(case, "a number", "%s: %s" % (type(e).__name__, e), "the maps are defined on the whole domain",
                              tags=dict(scale=name, clause="raises"))
                continue
            if s_ != sr or b_ != br:
                ctx.violation(case, [sr, br], [s_, b_], "a scale whose public parameters were re-assigned is the scale with the new parameters",
                              tags=dict(scale=name, clause="instance_independent"))
            if not (abs(b_ - f) <= 1e-9 * max(1.0, abs(f))):
                ctx.violation(case, f, b_, "scale_to_hertz(hertz_to_scale(f)) == f", tags=dict(scale=name, clause="left_inv"))
    # "nice" decimal values ON THE SCALE AXIS (0.3 Bark, 2.0 Bark, 20.1 Bark, 1000 mel ...): the grids above reach the scale
    # axis only through hertz_to_scale, which never returns such a value exactly
    for name, params, o in objs[:8]:
        prev = None
        for k in range(0, 260):
            sv = [k / 10.0, k * 10.0, float(k)][0 if name in ("bark", "octave") else (1 if name == "mel" else 2)]
            if name == "bark" and sv > 24.0:
                break
            with np.errstate(all="ignore"):
                try:
                    h = float(o.scale_to_hertz(sv))
                except Exception as e:
                    ctx.violation(dict(scale=name, params=params, s=sv), "a number", "%s: %s" % (type(e).__name__, e), "scale_to_hertz raises",
                                  tags=dict(scale=name, clause="raises"))
                    continue
            if not (0.0 <= h <= 1e5):
                continue
            case = dict(scale=name, params=params, s=sv, decimal_scale_value=True)
            ctx.case(case, kind="scale_axis:" + name)
            back = float(o.hertz_to_scale(h))
            cases.append((name + "_s2h", params, sv, h))
            if not (abs(back - sv) <= 1e-9 * max(1.0, abs(sv))):
                ctx.violation(case, sv, back, "hertz_to_scale(scale_to_hertz(s)) == s", tags=dict(scale=name, clause="right_inv"))
            if prev is not None and not (h > prev[1]):
                ctx.violation(dict(case, prev=prev[0]), "s2h increasing", [prev[1], h], "scale_to_hertz strictly increasing",
                              tags=dict(scale=name, clause="mono_s2h"))
            prev = (sv, h)
    # integer-typed arguments are legal Python numbers: the maps must not depend on the argument's type
    for name, params, o in objs:
        for v in (0, 1, 2, 3, 20, 21, 24, 100, 1000):
            if name == "octave" and v < max(params[0], 1):
                continue
            for nm, fn in (("s2h", o.scale_to_hertz), ("h2s", o.hertz_to_scale)):
                if name == "bark" and nm == "s2h" and v > 26:
                    continue
                if nm == "s2h":
                    with np.errstate(all="ignore"):
                        hz = float(o.scale_to_hertz(float(v)))
                    if not (0 <= hz <= 1e5):  # outside the property's domain [0, 1e5] Hz
                        continue
                case = dict(scale=name, params=params, int_arg=v, fn=nm)
                ctx.case(case, kind="int_arg")
                try:
                    with np.errstate(all="ignore"):
                        a, b, c = float(fn(v)), float(fn(float(v))), float(fn(np.int64(v)))
                except Exception as e:
                    ctx.violation(case, "a number", "%s: %s" % (type(e).__name__, e), "integer-typed argument raises", tags=dict(scale=name, clause="int_arg_raises"))
                    continue
                if not (common.close(a, b, rel=1e-12) and common.close(c, b, rel=1e-12)):
                    ctx.violation(case, b, [a, c], "the map gives the same value for 1, 1.0 and numpy.int64(1)",
                                  tags=dict(scale=name, clause="int_arg"))
    # published anchors
    m = float(S.MelScaling().hertz_to_scale(1000.0))
    ctx.case(dict(anchor="mel1000"))
    if not abs(m - 1000.0) < 0.02:
        ctx.violation(dict(anchor="mel1000"), 1000.0, m, "1000 Hz is 1000 mel within 0.02", tags=dict(clause="mel_1000"))
    bk = S.BarkScaling()
    for f, z in ((204.2308, 2.0), (6542.847, 20.1)):
        v = float(bk.hertz_to_scale(f))
        ctx.case(dict(anchor="bark", f=f))
        if abs(v - z) > 1e-4:
            ctx.violation(dict(anchor="bark", f=f), z, v, "Bark break-point value", tags=dict(clause="bark_anchor"))
    # Traunmueller formula itself at a few mid-range points
    for f in (300.0, 1000.0, 3000.0, 6000.0):
        v = float(bk.hertz_to_scale(f))
        want = 26.81 * f / (1960.0 + f) - 0.53
        ctx.case(dict(anchor="bark_mid", f=f))
        if abs(v - want) > 1e-9:
            ctx.violation(dict(anchor="bark_mid", f=f), want, v, "Bark mid-range formula", tags=dict(clause="bark_formula"))
    # octave constructor guard
    for low in (0.0, -1.0, -1e-12, 1e-300, 1.0):
        ctx.case(dict(octave_ctor=low))
        try:
            S.OctaveScaling(low)
            raised = False
        except ValueError:
            raised = True
        if raised != (low <= 0):
            ctx.violation(dict(octave_ctor=low), low <= 0, raised, "OctaveScaling rejects non-positive low_hz",
                          tags=dict(clause="octave_ctor"))
    # --- correspondence: generated Float model vs implementation
    lines = ["scale %s %s" % (fn, " ".join(common.fbits(v) for v in params + [x])) for fn, params, x, _ in cases]
    outs = driver.run(lines)
    ctx.corr_lines += len(lines)
    for (fn, params, x, impl), o in zip(cases, outs):
        if o == "bad-op":
            ctx.mismatch(dict(fn=fn, params=params, x=x), o, impl, "driver rejected")
            continue
        mv = common.bits_to_float(o)
        if not common.close(mv, impl, rel=1e-12, abs_=1e-12):
            ctx.mismatch(dict(fn=fn, params=params, x=x), mv, impl, "generated Float model vs implementation")
    ctx.count("correspondence_lines", len(lines))


def lipschitz(name, params, f):
    """upper bound of d(h2s)/df on [f, inf) (all four maps are concave or linear there)."""
    if name == "linear":
        return abs(params[1])
    if name == "octave":
        return 1.0 / (max(f, 1e-300) * math.log(2))
    if name == "mel":
        return 1127.0 / (700.0 + f)
    if name == "bark":
        return 1.22 * 26.81 * 1960.0 / (1960.0 + f) ** 2
    return float("inf")


def replay(rp):
    S = scale_objects()
    print(common.canon(rp.get("case")))
    c = rp.get("case", {})
    if "scale" in c and "hertz" in c:
        cls = dict(mel=S.MelScaling, bark=S.BarkScaling, linear=S.LinearScaling, octave=S.OctaveScaling)[c["scale"]]
        o = cls(*c.get("params", []))
        s = o.hertz_to_scale(c["hertz"])
        print("impl: h2s=%r s2h(h2s)=%r" % (s, o.scale_to_hertz(s)))
    print("oracle:", rp.get("oracle"), "expected", rp.get("expected"), "got", rp.get("got"))
    return 0

LEVEL_TEXT = (
    "Full proof over the reals: left/right inverse, strict monotonicity and continuity (incl. the Bark break-points, "
    "via corr = max of three affine maps) of all four scales, mel(1000) within 0.02, octave constructor guard; the "
    "theorems are about definitions regenerated from scales.py on every run, and the same definitions at Float are "
    "compared with the implementation."
)
LEVEL_NOTE = (
    "Trusted: Lean kernel, std axioms, the scales.py translator, float correspondence at 1e-12. Domain hypotheses: "
    "mel f>-700, Bark f>-1960 & s<27.6396, octave f>0, linear slope>0. Float inverse error is sampled only."
)
TECHNIQUE = "Lean 4 proof over translator-generated definitions (reals) + Float correspondence"

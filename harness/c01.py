"""C01 - chunked streaming equals whole-signal computation, for every chunking."""
import itertools

import numpy as np

from . import common
from . import stft_common as sc

PROP = "C01"
MODULES = ["PdsVerif.Props.StftTie", "PdsVerif.Props.SiTie", "PdsVerif.Props.C01", "PdsVerif.Props.C03"]  # C03 holds the short-integration streaming theorems si_stream_*
MODEL_MODULES = ["PdsVerif.Model.StftDrv", "PdsVerif.Model.Si"]
REQUIRED = ["PdsVerif.StftTie." + n for n in ["full_pad_left_eq", "full_short_eq", "full_num_frames_eq", "full_pad_right_eq", "fin_pad_left_eq", "fin_num_frames_eq", "chunk_frame_length_eq", "chunk_num_frames_eq", "chunk_first_pad_eq", "torch_arith_eq_numpy", "torch_no_frame_eq"]] + ["PdsVerif.C01." + n for n in ["stft_stream_eq_full", "stft_fbf_eq_full", "stft_features_stream_eq_full", "stft_full_frames_length", "stft_full_count", "stft_state_canonical", "stft_raw_stream_eq_full"]] + [
    "PdsVerif.C03." + n for n in ["si_stream_eq_full", "si_stream_eq_spec", "si_stream_chunk", "overlap_save_valid", "accumulate_spec"]] + ["PdsVerif.SiTie." + n for n in ["reset_x_rem_eq", "reset_y_rem_eq", "reset_skip_eq", "reset_started_eq", "reset_zeroes_eq", "valid_eq", "num_raw_eq", "num_frames_eq", "num_processed_eq", "num_dfts_eq", "x_rem_after_eq", "chunkCore_bookkeeping", "fin_buf_len_eq", "fin_num_frames_eq", "fin_pad_right_eq", "finalize_eq_gen"]]

def translate(repo):
    """framing arithmetic of compute.py / torch.py -> Generated/StftConsts.lean (theorems: Props/StftTie.lean)"""
    from .translate import stftconsts, siconsts
    files = dict(stftconsts.generate(repo))
    # the SI computer's integer bookkeeping -> Generated/SiConsts.lean (Props/SiTie.lean)
    files.update(siconsts.generate(repo))
    return files


RULE = (
    "STFT: (frame_length L, frame_shift S<=L, style, kaldi_shift, integer window) x signal length N (0, 1, S//2, L//2, "
    "L//2+1, L, multiples of S, up to 3L+2) x chunking (random compositions with empty and single-sample chunks; all "
    "compositions of small N in the thorough tier) x chunk_size for frame_by_frame; a case is distinct by "
    "(config, N, chunking); trivial = N==0 with no chunks. Library-bank and short-integration cases are drawn from "
    "bank type x scale x shift x style x flags and compared under a float tolerance."
)
TRUSTED = [
    "semantics of np.pad(...,'symmetric'), slicing, np.concatenate as modelled in Model/Stft.lean (symPad, drop/take, ++)",
    "`_compute_frame` is a pure function of the frame it is given (read off the source; exercised by the runs)",
    "tracer components harness/tracers.py (DCBank, IntWindow) make the frame contents observable as integers",
    "short-integration computer: circConv stands for rfft*multiply*irfft; that the DFT product is the circular convolution is proved "
    "(C03.circConv_eq_idft_dft_mul over Lemmas/Dft.lean), that NumPy's FFT routines compute the documented DFT is trusted; see C03",
]
ASSUMPTIONS = [
    "theorem scope: 1 <= frame_shift <= frame_length (the property's STFT precondition)",
    "floating-point grouping differences between streaming and whole-signal computation are tolerated at 1e-9 relative (the property says 'up to round-off')",
]
LEVEL_TEXT = (
    "STFT: full proof, for every configuration with 1<=S<=L, every signal (any sample type) and every chunking "
    "(including empty chunks), that compute_chunk*;finalize hands _compute_frame exactly the frames compute_full does "
    "(refinement to a canonical state that is a function of the samples seen so far), hence equal features for any "
    "per-frame function; frame_by_frame_calculation as a corollary for every chunk_size. The model mirrors the "
    "buffer/first-frame/finalize code and is tied to it by exact-integer correspondence through the public API. "
    "Short-integration computers: si_stream_eq_full (Props/C03.lean) proves the same for every WF configuration - which "
    "contains the property's precondition - over any commutative ring, for every chunking; tied by IntFIR exact-integer "
    "correspondence and, for the integer bookkeeping (reset, chunk planning, finalize), by translation (SiTie)."
)
LEVEL_NOTE = (
    "Trusted: np.pad symmetric / slicing semantics as modelled; tracer bank+window; Lean kernel + std axioms. "
    "Short-integration: NumPy FFT = documented DFT trusted (the convolution theorem itself is proved, C03). Float round-off is "
    "outside every theorem."
)
TECHNIQUE = "Lean 4 refinement proof (stream = full for all chunkings) + exact-integer correspondence via tracer bank"


def configs(ctx):
    r = ctx.rng
    out = []
    maxL = 9 if ctx.tier == "quick" else 16
    for L in range(1, maxL + 1):
        for S in range(1, L + 1):
            for centered, kaldi in ((False, False), (True, False), (True, True)):
                out.append((L, S, centered, kaldi))
    # a few larger, realistic ones
    for L, S in ((25, 10), (32, 16), (40, 13), (64, 1), (31, 31)):
        for centered, kaldi in ((False, False), (True, False), (True, True)):
            out.append((L, S, centered, kaldi))
    return out


def lengths(ctx, L, S):
    base = {0, 1, S // 2, max(0, S // 2 - 1), L // 2, L // 2 + 1, L - 1, L, L + 1, 2 * L, 3 * L + 2, S, 2 * S, 3 * S + 1}
    for _ in range(3):
        base.add(ctx.rng.randrange(0, 3 * L + 3))
    if ctx.tier == "thorough" and L <= 8:
        base |= set(range(0, 3 * L + 3))
    return sorted(n for n in base if n >= 0)


def random_chunking(r, N):
    """composition of N with interleaved empty chunks"""
    if N == 0:
        return [0] * r.randrange(0, 3)
    mode = r.random()
    if mode < 0.15:
        parts = [N]
    elif mode < 0.3:
        parts = [1] * N
    else:
        k = r.randrange(1, min(N, 6) + 1)
        cuts = sorted(r.randrange(0, N + 1) for _ in range(k - 1))
        parts = [b - a for a, b in zip([0] + cuts, cuts + [N])]
    out = []
    for p in parts:
        if r.random() < 0.2:
            out.append(0)
        out.append(p)
    if r.random() < 0.2:
        out.append(0)
    return out


def compositions(N):
    if N == 0:
        yield []
        return
    for bits in itertools.product((0, 1), repeat=N - 1):
        parts, cur = [], 1
        for b in bits:
            if b:
                parts.append(cur)
                cur = 1
            else:
                cur += 1
        parts.append(cur)
        yield parts


def run(ctx, driver):
    r = ctx.rng
    cfgs = configs(ctx)
    r.shuffle(cfgs)
    budget = ctx.scale(2500, 150000)
    jobs = []  # (cfg, taps, ops, meta)
    per_cfg = max(2, budget // max(1, len(cfgs)))
    for (L, S, centered, kaldi) in cfgs:
        kinds = ["pow", "ramp"] + (["hot%d" % r.randrange(L)] if L > 1 else [])
        for N in lengths(ctx, L, S)[: max(per_cfg, 60 if ctx.tier == "thorough" else 0)]:
            taps = sc.window_taps(r.choice(kinds), L, seed=r.randrange(5))
            chunkings = [random_chunking(r, N) for _ in range(2 if ctx.tier == "quick" else 4)]
            if ctx.tier == "thorough" and N <= 7:
                chunkings += list(compositions(N))
            for ch in chunkings:
                ops = ["c%d" % n for n in ch] + ["z", "F%d" % N, "B%d:%d" % (N, r.choice([1, 2, 3, S, L, 1024]))]
                jobs.append(((L, S, centered, kaldi), taps, ops, dict(N=N, chunks=ch)))
            if len(jobs) >= budget:
                break
        if len(jobs) >= budget:
            break
    lines = [sc.ops_line(L, S, ce, ka, ops) for (L, S, ce, ka), _, ops, _ in jobs]
    outs = driver.run(lines)
    ctx.count("correspondence_lines", len(lines))
    comp_cache = {}
    for (cfg, taps, ops, meta), mout in zip(jobs, outs):
        if ctx.out_of_time():
            ctx.note("time budget reached")
            break
        L, S, centered, kaldi = cfg
        case = dict(computer="stft", L=L, S=S, centered=centered, kaldi=kaldi, N=meta["N"], chunks=meta["chunks"],
                    window=taps)
        ctx.case(case, nontrivial=meta["N"] > 0 or len(meta["chunks"]) > 0,
                 kind="stft:" + ("causal" if not centered else ("kaldi" if kaldi else "centered")))
        key = (cfg, tuple(taps))
        comp = comp_cache.get(key)
        if comp is None:
            comp = comp_cache[key] = sc.make_dc_computer(L, S, centered, kaldi, taps)
        if comp.started:
            comp.finalize()
        impl = sc.run_ops_impl(comp, ops, same_signal=True)
        rows = []
        bad_float = False
        for val, _st in impl:
            if isinstance(val, str):
                rows.append(val)
            else:
                ir = sc.as_int_rows(val)
                if ir is None:
                    bad_float = True
                rows.append(ir)
        if bad_float:
            ctx.mismatch(case, None, None, "implementation value not within 1e-6 of an integer (tracer broke)")
            continue
        # ---- property oracle (implementation only)
        nchunks = len(meta["chunks"])
        stream_rows = [v for part in rows[: nchunks + 1] if isinstance(part, list) for v in part]
        full_rows, fbf_rows = rows[nchunks + 1], rows[nchunks + 2]
        if any(isinstance(p, str) for p in rows):
            ctx.violation(case, "no exception", [p for p in rows if isinstance(p, str)],
                          "chunk/finalize/compute_full/frame_by_frame raise on a fresh computer",
                          tags=dict(computer="stft", clause="raises"))
        else:
            if stream_rows != full_rows:
                ctx.violation(case, dict(full=full_rows), dict(stream=stream_rows),
                              "concat(compute_chunk*, finalize) == compute_full (integer tracer, exact)",
                              tags=dict(computer="stft", clause="stream_eq_full",
                                        style="causal" if not centered else ("kaldi" if kaldi else "centered")))
            if fbf_rows != full_rows:
                ctx.violation(case, dict(full=full_rows), dict(fbf=fbf_rows),
                              "frame_by_frame_calculation == compute_full for every chunk_size",
                              tags=dict(computer="stft", clause="fbf_eq_full"))
        # ---- correspondence with the Lean model
        if mout == "bad-op":
            ctx.mismatch(case, mout, rows, "driver rejected the op line")
            continue
        exp = sc.expected_from_model(mout, ops, taps, same_signal=True)
        if exp != rows:
            ctx.mismatch(case, exp, rows, "frames (as integer tracer sums) per op: model vs implementation")
    # short-integration computers: exact-integer streaming correspondence (model + harness of C03)
    from . import c03
    c03.si_stream_cases(ctx, common.Driver("C03"))
    real_bank_oracle(ctx)


def real_bank_oracle(ctx):
    """Library banks, float tolerance: stream vs full vs frame_by_frame, STFT and SI computers."""
    from pydrobert.speech import compute, filters

    r = ctx.rng
    n = ctx.scale(24, 400)
    rate = 8000
    banks = []
    BURSTS = {5: ("si", "gabor", "causal"), 11: ("stft", "gabor", "centered"), 17: ("si", "gabor", "centered"),
              20: ("si", "gammatone", "causal"), 23: ("si", "tri", "centered")}
    # non-contiguous signals (fixed in every parameter): computer, memory layout, dtype, bank
    LAYOUTS = {4: ("stft", "step2", np.float64, "tri"), 10: ("stft", "column", np.float32, "gabor"),
               16: ("si", "step2", np.float64, "gabor"), 22: ("stft", "negative", np.float64, "fbank")}
    # streams handed over to a copy of the computer (fixed in every parameter): computer, bank
    COPIES = {3: ("si", "gabor"), 9: ("stft", "tri"), 15: ("si", "gammatone"), 21: ("stft", "gabor")}
    for case_no in range(n):
        kind = r.choice(["gabor", "tri", "fbank", "gammatone"])
        scale = r.choice(["mel", "bark", "linear", "octave"])
        if case_no in BURSTS:
            kind, scale = BURSTS[case_no][1], "mel"
        if case_no in LAYOUTS:
            kind, scale = LAYOUTS[case_no][3], "mel"
        if case_no in COPIES:
            kind, scale = COPIES[case_no][1], "mel"
        sc_arg = {"mel": "mel", "bark": "bark", "linear": dict(name="linear", low_hz=0.0), "octave": dict(name="octave", low_hz=40.0)}[scale]
        nf = r.choice([3, 5, 8])
        lo, hi = r.choice([(20.0, 3800.0), (100.0, 2000.0), (300.0, 4000.0)])
        if case_no in LAYOUTS or case_no in COPIES or case_no in BURSTS:
            nf, lo, hi = 8, 100.0, 2000.0    # long supports: inside the SI precondition at a 2 ms shift
        try:
            if kind == "gabor":
                b = filters.GaborFilterBank(sc_arg, num_filts=nf, low_hz=lo, high_hz=hi, sampling_rate=rate)
            elif kind == "tri":
                b = filters.TriangularOverlappingFilterBank(sc_arg, num_filts=nf, low_hz=lo, high_hz=hi, sampling_rate=rate,
                                                            analytic=r.random() < 0.5)
            elif kind == "fbank":
                b = filters.Fbank(num_filts=nf, low_hz=lo, high_hz=hi, sampling_rate=rate, analytic=r.random() < 0.5)
            else:
                b = filters.ComplexGammatoneFilterBank(sc_arg, num_filts=nf, low_hz=lo, high_hz=hi, sampling_rate=rate)
        except Exception as e:
            ctx.count("bank_ctor_error:" + type(e).__name__)
            continue
        style = r.choice(["causal", "centered"])
        which = r.choice(["stft", "stft", "si"])
        if case_no % 12 == 0:
            which = "stft"      # the second-live-instance cases: at least these two are STFT computers in every run
        flags = dict(include_energy=r.random() < 0.5, use_log=r.random() < 0.5, use_power=r.random() < 0.5,
                     pad_to_nearest_power_of_two=r.random() < 0.5)
        # fixed extra shapes (every run): other spellings of the frame style - whatever computer the constructor
        # accepts is "any computer" of the property (the unchanged code rejects them: counted, nothing to check) -,
        # and log features of a signal that is exactly zero except for two bursts (the SI computer's DFT blocks
        # depend on the chunking, so only the log floor keeps round-off out of the silent frames)
        special = {2: "style:Causal", 8: "style:Centered", 14: "style:CENTERED", 5: "bursts:si", 11: "bursts:stft", 17: "bursts:si", 20: "bursts:si", 23: "bursts:si"}.get(case_no)
        if special and special.startswith("style:"):
            style = special[6:]
        if special and special.startswith("bursts:"):
            which, _, style = BURSTS[case_no]
            flags.update(use_log=True, include_energy=False, use_power=False, pad_to_nearest_power_of_two=True)
        shift_ms = r.choice([2.0, 5.0, 10.0])
        if case_no in BURSTS:
            shift_ms = 3.0
        if case_no in LAYOUTS:
            which = LAYOUTS[case_no][0]
            shift_ms = 2.0 if which == "si" else 5.0
            style = ["causal", "centered"][(case_no // 6) % 2]
        if case_no in COPIES:
            which = COPIES[case_no][0]
            shift_ms = 2.0 if which == "si" else 5.0
            style = ["centered", "causal"][(case_no // 6) % 2]
        case = dict(computer=which, bank=kind, scale=scale, num_filts=nf, low=lo, high=hi, style=style, shift_ms=shift_ms, **flags)
        try:
            if which == "stft":
                flen = r.choice([None, 8.0, 20.0, 25.0])
                if flen is not None and flen < shift_ms:
                    flen = shift_ms
                kaldi_ = r.random() < 0.3

                def mk(b=b, flen=flen, shift_ms=shift_ms, style=style, kaldi_=kaldi_, flags=flags):
                    return compute.STFTFrameComputer(b, frame_length_ms=flen, frame_shift_ms=shift_ms, frame_style=style,
                                                     kaldi_shift=kaldi_, **flags)
                comp = mk()
                if comp.frame_shift > comp.frame_length:
                    ctx.count("out_of_scope")
                    continue
            else:
                def mk(b=b, shift_ms=shift_ms, style=style, flags=flags):
                    return compute.SIFrameComputer(b, frame_shift_ms=shift_ms, frame_style=style, **flags)
                comp = mk()
                # property precondition: shift shorter than the longest filter's one-sided support
                sup = max((rr if style.lower() == "causal" else (rr - ll) // 2) for ll, rr in b.supports)
                if not comp.frame_shift < sup:
                    ctx.count("out_of_scope")
                    continue
        except Exception as e:
            ctx.count("computer_ctor_error:" + type(e).__name__)
            continue
        L, S = comp.frame_length, comp.frame_shift
        N = r.choice([0, 1, S // 2, L // 2, L // 2 + 1, L, 2 * L + 3, r.randrange(0, 4 * L + 2), 5 * L + 7])
        # "any float signal": double and single precision (the computers work in double precision internally and
        # return the input's dtype, so streaming and whole-signal results still agree to the result's precision)
        fdt = r.choice([np.float64, np.float64, np.float32])
        x = np.random.RandomState(r.randrange(1 << 30)).randn(N).astype(fdt)
        x.setflags(write=False)
        if special and special.startswith("bursts:"):
            N = 8000
            xb = np.zeros(N)
            rs = np.random.RandomState(r.randrange(1 << 30))
            for a0 in (N // 7, (4 * N) // 7):
                xb[a0 : a0 + L // 2 + 3] = rs.randn(len(xb[a0 : a0 + L // 2 + 3]))
            x = xb.astype(fdt)
            x.setflags(write=False)
            case["signal"] = "two bursts in silence"
        chunks = random_chunking(r, N)
        if special and special.startswith("bursts:"):
            chunks = [64] * (N // 64) + ([N % 64] if N % 64 else [])
        if case_no % 6 == 1:
            # fixed shape of the reused-block feed: double precision, blocks a little longer than a frame
            fdt, N = np.float64, 5 * L + 7
            x = np.random.RandomState(r.randrange(1 << 30)).randn(N).astype(fdt)
            x.setflags(write=False)
            chunks = [L + 3] * (N // (L + 3)) + ([N % (L + 3)] if N % (L + 3) else [])
        layout = None
        if case_no % 6 == 4:
            # "any float signal": the samples need not be contiguous in memory - every other element of a longer array,
            # one channel of an interleaved stereo buffer, an array read backwards.  Chunks longer than two frames, so
            # that whole frames lie inside one chunk (where a computer may be tempted to frame without copying)
            layout = LAYOUTS[case_no][1] if case_no in LAYOUTS else ["step2", "column", "negative"][(case_no // 6) % 3]
            fdt = LAYOUTS[case_no][2] if case_no in LAYOUTS else [np.float64, np.float32][(case_no // 18) % 2]
            N = 7 * L + 5
            x = common.strided_view(np.random.RandomState(r.randrange(1 << 30)).randn(N).astype(fdt), layout)
            x.setflags(write=False)
            chunks = [2 * L + 3] * (N // (2 * L + 3)) + ([N % (2 * L + 3)] if N % (2 * L + 3) else [])
            case["layout"] = layout
        case.update(N=N, chunks=chunks, L=L, S=S, dtype=np.dtype(fdt).name)
        ctx.case(case, kind="real:" + which + ":" + kind)
        if layout:
            ctx.count("layout:" + layout)
        try:
            full = comp.compute_full(x)
            parts, off = [], 0
            # how the chunks reach the computer: slices of the signal, or one block array that the caller refills for
            # every chunk (an audio callback) and overwrites as soon as the call returns
            reuse = case_no % 3 == 1 and not layout     # a non-contiguous signal is fed as slices of itself (views)
            case["feed"] = "reused_block" if reuse else "slices"
            blk = np.empty(max(chunks + [1]), dtype=fdt)
            # in a fixed share of the cases a SECOND, separately built computer of the same configuration is alive and is fed
            # chunks of another signal in between (one computer per channel of a stereo recording)
            other = mk() if case_no % 6 == 0 else None
            if other is not None:
                case["second_live_instance"] = True
                ctx.count("second_live_instance:" + which)
            for c in chunks:
                if other is not None:
                    other.compute_chunk(np.random.RandomState(c).randn(c + 3).astype(fdt))
                if reuse:
                    blk[:c] = x[off : off + c]
                    parts.append(comp.compute_chunk(blk[:c]))
                    blk[...] = np.nan
                else:
                    parts.append(comp.compute_chunk(x[off : off + c]))
                off += c
            if other is not None:
                other.finalize()
            parts.append(comp.finalize())
            st = np.concatenate(parts)
            fbf = compute.frame_by_frame_calculation(comp, x, (2 * L + 3) if layout else r.choice([1, 7, 160, 1024]))
        except Exception as e:
            if comp.started:
                try:
                    comp.finalize()
                except Exception:
                    pass
            ctx.violation(case, "no exception", "%s: %s" % (type(e).__name__, e), "streaming/full computation raises",
                          tags=dict(computer=which, clause="raises", exc=type(e).__name__))
            continue
        extra = []
        if case_no % 6 == 3:
            # the stream handed over to a COPY of the computer half way (copy.deepcopy / pickle round trip: a worker process,
            # a checkpoint), and a copy of the idle computer used for a whole stream: a copy is a computer with the same
            # configuration and the same utterance in progress
            how = ["deepcopy", "pickle"][(case_no // 12) % 2]
            try:
                parts, off = [], 0
                half = len(chunks) // 2
                for c in chunks[:half]:
                    parts.append(comp.compute_chunk(x[off : off + c]))
                    off += c
                cl = dict(common.clone_routes(comp))[how]
                if comp.started:
                    comp.finalize()
                if isinstance(cl, Exception):      # computers that refuse to be copied: no copy, nothing to check
                    raise common.NotCopyable()
                for c in chunks[half:]:
                    parts.append(cl.compute_chunk(x[off : off + c]))
                    off += c
                parts.append(cl.finalize())
                extra.append(("stream continued on a %s copy" % how, np.concatenate(parts)))
                cl2 = dict(common.clone_routes(comp))[how]
                if isinstance(cl2, Exception):
                    raise common.NotCopyable()
                parts, off = [], 0
                for c in chunks:
                    parts.append(cl2.compute_chunk(x[off : off + c]))
                    off += c
                parts.append(cl2.finalize())
                extra.append(("stream on a %s copy of the idle computer" % how, np.concatenate(parts)))
                ctx.count("copy_handoff:" + how)
            except common.NotCopyable:
                ctx.count("not_copyable:" + how)
            except Exception as e:
                ctx.violation(dict(case, copy=how), "no exception", "%s: %s" % (type(e).__name__, e), "streaming on a copied computer raises",
                              tags=dict(computer=which, clause="raises", exc=type(e).__name__))
        for name, got in [("stream", st), ("fbf", fbf)] + extra:
            tol = 1e-8 if fdt is np.float64 else 2e-5
            # the element type of the result follows the chunks; when no chunk at all reached the computer (an empty
            # signal cut into zero chunks) the streaming side cannot know it and the (empty) matrices are compared by shape
            dtype_known = (len(chunks) > 0) if name.startswith("stream") else (N > 0)
            if not dtype_known:
                ctx.count("dtype_unknowable_no_chunk")
            if got.shape != full.shape or (dtype_known and got.dtype != full.dtype) or not np.allclose(got, full, rtol=tol, atol=tol / 10):
                ctx.violation(case, dict(shape=list(full.shape)),
                              dict(shape=list(got.shape), maxdiff=float(np.max(np.abs(got - full))) if got.shape == full.shape and got.size else None),
                              "%s == compute_full (library bank, up to round-off)" % name,
                              tags=dict(computer=which, clause=name.split(" ")[0] + "_eq_full"))


def replay(rp):
    case = rp.get("case", {})
    print(common.canon(case))
    if case.get("computer") == "stft" and "window" in case:
        comp = sc.make_dc_computer(case["L"], case["S"], case["centered"], case["kaldi"], case["window"])
        N = case["N"]
        ops = ["c%d" % n for n in case["chunks"]] + ["z", "F%d" % N]
        impl = sc.run_ops_impl(comp, ops, same_signal=True)
        print("impl:", [sc.as_int_rows(v) if not isinstance(v, str) else v for v, _ in impl])
        d = common.Driver("C01")
        out = d.run([sc.ops_line(case["L"], case["S"], case["centered"], case["kaldi"], ops)])[0]
        print("model:", sc.expected_from_model(out, ops, case["window"], same_signal=True))
    print("oracle:", rp.get("oracle"), "expected", rp.get("expected"), "got", rp.get("got"))
    return 0

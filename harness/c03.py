"""C03 - short-integration coefficients equal their documented definition
(and the short-integration half of C01: streaming == compute_full, see `si_stream_cases`)."""
import math

import numpy as np

from . import common

PROP = "C03"
MODULES = ["PdsVerif.Props.SiFrameTie", "PdsVerif.Props.SiTie", "PdsVerif.Props.DftSizeTie", "PdsVerif.Props.C03"]
MODEL_MODULES = ["PdsVerif.Model.Si"]
REQUIRED = ["PdsVerif.C03." + n for n in [
    "circConv_eq_idft_dft_mul", "overlap_save_valid", "overlap_save_lastK", "accumulate_spec", "si_full_count", "si_full_spec", "si_spec_coef",
    "si_energy", "si_dtype", "si_dtype_nonfloat", "si_full_spec_gaussian", "si_stream_eq_full", "si_stream_eq_spec",
    "si_stream_chunk", "si_stream_emitted_le",
]] + ["PdsVerif.SiFrameTie.si_frame_spec", "PdsVerif.SiFrameTie.si_frame_ge_log_floor"] + ["PdsVerif.SiTie." + n for n in ["reset_x_rem_eq", "reset_y_rem_eq", "reset_skip_eq", "reset_started_eq", "reset_zeroes_eq", "valid_eq", "num_raw_eq", "num_frames_eq", "num_processed_eq", "num_dfts_eq", "x_rem_after_eq", "chunkCore_bookkeeping", "fin_buf_len_eq", "fin_num_frames_eq", "fin_pad_right_eq", "finalize_eq_gen"]] + ["PdsVerif.DftSizeTie.si_dft_size_spec", "PdsVerif.DftSizeTie.si_dft_size_ge", "PdsVerif.DftSizeTie.pow2_clog_least"]


def translate(repo):
    """ShortIntegrationFrameComputer._compute_frame (sum of the half-frame accumulators, log floor) ->
    Generated/SiFrame.lean (theorem: Props/SiFrameTie.lean)"""
    from .translate import framecoeff, siconsts
    files = dict(framecoeff.generate_si(repo))
    # integer bookkeeping (_compute_preamble reset, compute_chunk planning, finalize) -> Generated/SiConsts.lean (Props/SiTie.lean)
    files.update(siconsts.generate(repo))
    from .translate import dftsize
    files.update(dftsize.generate(repo))   # DFT size rule -> Generated/DftSize.lean (Props/DftSizeTie.lean)
    return files

RULE = (
    "IntFIR correspondence: (frame_shift S, 1-3 filters with integer or Gaussian-integer taps on chosen half-open "
    "supports incl. negative left ends, causal/centred, padded/unpadded/oversized DFT, energy on/off, power/magnitude) "
    "x integer window x integer signal of length N (0, 1, S//2, S, frame_length, V=D-M+1 and multiples, several DFT "
    "blocks) x chunking (whole, single samples, random compositions with empty chunks) x dtype ops; a case is distinct "
    "by (config, window, signal, ops); trivial = N==0 with no chunks. Configurations outside the model's WF "
    "(causal S >= max right support) are run too: the model mirrors the code's wrong counts / ValueError there. "
    "Oracle: library banks (Gabor, gammatone, triangular, Fbank) x scale x shift x style x energy x power x log x "
    "padding x window x float16/32/64 x N x random chunking against a direct np.convolve evaluation."
)
TRUSTED = [
    "np.fft.rfft/irfft (fft/ifft for complex banks) compute NumPy's documented DFT / inverse DFT (round-off <= 1e-9 at the magnitudes "
    "used); that idft(dft(b,D)*dft(h,D)) is the circular convolution `circConv D b h` of Model/Si.lean is PROVED over the complex "
    "numbers (circConv_eq_idft_dft_mul, character orthogonality in Lemmas/Dft.lean) and exercised by every correspondence case",
    "semantics of Python slicing / negative-index slices / range(a,b,s) / zip(.., count(k)) / np.roll / reshape(2,S) as "
    "modelled in Model/Si.lean (take, drop, lastK, block enumeration, (take S, drop S))",
    "the model stores y_buf[b,a,i] as ybuf[i][b].(a): a transposition of the same cells",
    "filter preparation in __init__ (periodise, roll by translation resp. translation-mid+1, clamp to max_support, unit "
    "impulse at `translation` for the energy row) enters the model as data: harness/tracers_si.py:prepared_taps restates "
    "it as an index formula and the correspondence runs compare the resulting coefficients with the implementation",
    "tracer components harness/tracers_si.py (IntFIR) and harness/tracers.py (IntWindow) make every coefficient an integer",
    "D (= _dft_size) is not public: it is recomputed from frame_length, supports_hz, rate and the padding flag by the "
    "formula of __init__ (harness/tracers_si.py:derived_params); M = frame_length - frame_shift + 1; tr from bank.supports",
]
ASSUMPTIONS = [
    "theorem scope WF: 1 <= S, M + S - 1 <= D, every filter has M taps, the window 2S taps, and (causal) S + tr + 1 <= M, "
    "i.e. frame_shift < largest right support - exactly the property's causal precondition and the exact boundary found "
    "by small-scope search; (centred) tr + 1 <= M, which every centred computer with a non-empty support satisfies - the "
    "property's centred precondition (S < half support) is strictly inside WF",
    "theorems are exact identities in an arbitrary commutative ring; floating-point round-off, the FFT and the "
    "float32/float16 result cast are outside every theorem (oracle runs only)",
    "the log floor is `post`, an arbitrary function in the theorems: that it is log(max(., LOG_FLOOR_VALUE)) is checked by the oracle runs",
]
LEVEL_TEXT = (
    "Full proof, for every well-formed configuration (see assumptions), every bank/window, every signal over any "
    "commutative ring and every chunking (empty and single-sample chunks included), that the model of "
    "compute_chunk*/finalize/compute_full returns exactly (N + S//2)//S frames whose coefficient i of frame k is "
    "post(sum_{u<2S} w[u]*phi(sum_{j<M} h_i[j]*X[k*S+u+offs-j])) with X zero-extended (overlap-save validity, block "
    "accumulation for any split of the filtered stream, x-buffer/skip/finalize bookkeeping, all run-time assertions of "
    "the code discharged), and that streaming equals compute_full. The model mirrors the code line by line and is tied "
    "to it by exact-integer correspondence through the public API (IntFIR bank + integer window). The integer bookkeeping is tied by translation as well (SiTie: the reset of "
    "_compute_preamble as a function of the OLD field values, compute_chunk's planning arithmetic and leftover count, all of "
    "finalize, regenerated from compute.py each run and proved equal to the model's), as is the DFT-size rule (DftSizeTie). "
    "The frame's last step (sum of the two "
    "half-window accumulators, log floor) is regenerated from compute.py each run and proved to be logFloor(a+b), never "
    "below log(floor) (SiFrameTie). dtype clause: tag in the model + oracle runs."
)
LEVEL_NOTE = (
    "Trusted: NumPy FFT = documented DFT (the convolution theorem is proved: circConv_eq_idft_dft_mul), slicing/range semantics, the "
    "index-formula restatement of the filter preparation, tracer bank/window, Lean kernel + std axioms. Float round-off, "
    "the concrete log floor and dtype casts are covered by the np.convolve oracle on library banks, not by theorems."
)
TECHNIQUE = "Lean 4 invariant/refinement proof (overlap-save + block accumulators = documented formula; stream = full) + exact-integer correspondence via IntFIR tracer bank + np.convolve oracle"

DT = {16: np.float16, 32: np.float32, 64: np.float64}


# ----------------------------------------------------------------------------------------------
# IntFIR correspondence
# ----------------------------------------------------------------------------------------------

def _tracers():
    from . import tracers_si

    return tracers_si


def make_int_computer(case):
    from pydrobert.speech.compute import SIFrameComputer

    ts = _tracers()
    rate = 1000.0
    bank = ts.IntFIR([(l, t) for l, t in case["filters"]], rate=rate, real=case["real"], dft_floor=case["floor"])
    comp = SIFrameComputer(
        bank,
        frame_shift_ms=case["S"] * 1000.0 / rate,
        frame_style="centered" if case["centered"] else "causal",
        include_energy=case["energy"],
        pad_to_nearest_power_of_two=case["pad"],
        window_function=ts.IntWindow(taps=case["window"]),
        use_power=case["power"],
        use_log=False,
    )
    if comp.frame_shift != case["S"]:
        raise RuntimeError("frame_shift %s vs %s" % (comp.frame_shift, case["S"]))
    return bank, comp


def params_of(case, bank, comp):
    """(M, tr, D) from public data: frame_length/frame_shift, bank.supports, supports_hz, rate."""
    ts = _tracers()
    S = comp.frame_shift
    M = comp.frame_length - S + 1
    M2, tr, D = ts.derived_params(bank.supports, S, case["centered"], case["pad"], case["floor"])
    if M2 != M:
        raise RuntimeError("max_support by formula %d, from frame_length %d" % (M2, M))
    floor_pub = int(math.ceil(2 * bank.sampling_rate / min(r - l for l, r in bank.supports_hz)))
    if floor_pub != case["floor"]:
        raise RuntimeError("dft floor %d vs %d" % (floor_pub, case["floor"]))
    return M, tr, D


def wf(case, M, tr, D):
    S = case["S"]
    if S < 1 or M + S - 1 > D:
        return False
    return tr + 1 <= M if case["centered"] else S + tr + 1 <= M


def in_precondition(supports, S, centered):
    """the property's own precondition: shift shorter than the longest one-sided support"""
    sup = max(((r - l) // 2 if centered else r) for l, r in supports)
    return S < sup


def fmt_taps(taps):
    if not taps:
        return "-"
    return ",".join(("%d" % re) if im == 0 else ("%d:%d" % (re, im)) for re, im in taps)


def driver_line(case, M, tr, D, ops):
    ts = _tracers()
    hs = ts.prepared_taps([(l, t) for l, t in case["filters"]], M, tr, D, case["centered"], case["energy"])
    toks = ["si", case["S"], M, tr, D, int(case["centered"]), int(case["power"]),
            ",".join(str(w) for w in case["window"]), len(hs)]
    toks += [fmt_taps(h) for h in hs]
    toks.append(",".join(str(v) for v in case["x"]) if case["x"] else "-")
    toks += ops
    return " ".join(str(t) for t in toks)


def int_rows(a):
    """2-D float array -> list of lists of ints; None if some entry is not within 1e-6 of an integer."""
    a = np.asarray(a, dtype=np.float64)
    if a.ndim != 2:
        return None
    if a.size and not np.all(np.isfinite(a)):
        return None
    r = np.rint(a)
    if a.size and np.max(np.abs(a - r)) > 1e-6:
        return None
    return [[int(v) for v in row] for row in r]


def rows_close(model_rows, impl_rows, code):
    """low-precision results: every entry within one unit in the last place of the exact integer"""
    eps = {16: 2.0 ** -10, 32: 2.0 ** -23}[code]
    if len(model_rows) != len(impl_rows):
        return False
    for a, b in zip(model_rows, impl_rows):
        if len(a) != len(b):
            return False
        for u, v in zip(a, b):
            if u is None or abs(u - v) > eps * abs(u):
                return False
    return True


def run_ops_impl(comp, x, ops):
    """Per op: ('ok', rows, dtype-code) or ('E:value'|'E:assert'|'E:<Other>', None, None)."""
    outs = []
    off = 0
    dt = 64
    if comp.started:
        comp.finalize()
    for op in ops:
        k, body = op[0], op[1:]
        try:
            if k == "d":
                dt = int(body)
                outs.append(("ok", [], dt))
                continue
            if k == "P":
                outs.append(("spec", None, None))
                continue
            if k == "c":
                n = int(body)
                arr = np.array(x[off : off + n], dtype=DT.get(dt, np.int64))  # a private copy: the caller's block
                off += n
                arr.setflags(write=False)
                r = comp.compute_chunk(arr)
                # the block is reused by its owner as soon as the call returns; a computer that kept a view of it
                # instead of a copy would compute its next frames from this garbage
                arr.setflags(write=True)
                arr[...] = 77
            elif k == "z":
                r = comp.finalize()
                off = 0
            elif k == "F":
                arr = np.asarray(x, dtype=DT.get(dt, np.int64))
                arr.setflags(write=False)
                r = comp.compute_full(arr)
            else:
                raise RuntimeError(op)
            code = {np.dtype(np.float16): 16, np.dtype(np.float32): 32, np.dtype(np.float64): 64}.get(r.dtype, -1)
            outs.append(("ok", r, code))
        except ValueError:
            outs.append(("E:value", None, None))
        except (AssertionError, IndexError):
            outs.append(("E:assert", None, None))
        except Exception as e:  # anything else is reported verbatim
            outs.append(("E:" + type(e).__name__, None, None))
    return outs


def parse_model(out):
    """driver answer -> per op ('ok', rows, code) | ('E:..', None, None)"""
    res = []
    for part in out.split(";"):
        if part.startswith("E:"):
            res.append((part, None, None))
            continue
        body, code = part.rsplit("/", 1)
        if body == "-":
            rows = []
        else:
            rows = [[(None if v == "?" else int(v)) for v in fr.split(",")] for fr in body.split("|")]
        res.append(("ok", rows, int(code)))
    return res


def spec_py(case, M, tr, D):
    """the documented formula, straight: integers only"""
    ts = _tracers()
    hs = ts.prepared_taps([(l, t) for l, t in case["filters"]], M, tr, D, case["centered"], case["energy"])
    S, x, w = case["S"], case["x"], case["window"]
    N = len(x)
    o = tr - S if case["centered"] else tr

    def X(p):
        return x[p] if 0 <= p < N else 0

    out = []
    for k in range((N + S // 2) // S):
        row = []
        for h in hs:
            acc = 0
            for u in range(2 * S):
                q = k * S + u
                yr = sum(h[j][0] * X(q + o - j) for j in range(M))
                yi = sum(h[j][1] * X(q + o - j) for j in range(M))
                n2 = yr * yr + yi * yi
                if case["power"]:
                    v = n2
                else:
                    v = math.isqrt(n2)
                    if v * v != n2:
                        return None
                acc += w[u] * v
            row.append(acc)
        out.append(row)
    return out


UNITS = [(1, 0), (0, 1), (3, 4), (-4, 3), (5, 12)]


def gen_filters(r, real, power, maxw, need_right=None):
    nf = r.randrange(1, 4)
    out = []
    for idx in range(nf):
        left = r.randrange(-5, 3)
        wl = r.randrange(1, maxw + 1)
        if idx == 0 and need_right is not None:
            wl = max(wl, need_right - left)
        g = [r.randrange(-4, 5) for _ in range(wl)]
        if all(v == 0 for v in g):
            g[r.randrange(wl)] = 1
        if real:
            taps = [[v, 0] for v in g]
        elif power:
            taps = [[r.randrange(-3, 4), r.randrange(-3, 4)] for _ in range(wl)]
        else:  # magnitude of a complex bank stays an integer when every tap is a multiple of one unit of integer norm
            u = r.choice(UNITS)
            taps = [[v * u[0], v * u[1]] for v in g]
        out.append([left, taps])
    return out


def gen_config(r, tier):
    real = r.random() < 0.6
    power = r.random() < 0.5
    centered = r.random() < 0.5
    S = r.choice([1, 1, 2, 2, 3, 4, 5, 6, 7, 8, 9])
    # mostly inside WF / the property's precondition: some filter reaches beyond S on the right (causal) or is wider
    # than 2S (centred)
    need = None
    if r.random() < 0.7:
        need = (S + 1) if not centered else r.choice([1, 2 * S + 2])
    filters = gen_filters(r, real, power, 9 if tier == "quick" else 12, need)
    case = dict(S=S, filters=filters, centered=centered, pad=r.random() < 0.5,
                floor=r.choice([2, 2, 2, 7, 16, 23, 40]), energy=r.random() < 0.5, power=power, real=real,
                window=[r.randrange(1, 6) for _ in range(2 * S)])
    if r.random() < 0.15:
        case["window"][r.randrange(2 * S)] = 0
    return case


def lengths(r, S, M, D):
    V = D - M + 1
    L = M + S - 1
    base = {0, 1, S // 2, max(S // 2 - 1, 0), S, S + 1, L - 1, L, L + 1, V - 1, V, V + 1, 2 * V, 2 * V + 1, D, D + 1,
            2 * D + 3, 3 * V + S}
    for _ in range(3):
        base.add(r.randrange(0, 3 * D + 5))
    return sorted(n for n in base if n >= 0)


def random_chunking(r, N):
    if N == 0:
        return [0] * r.randrange(0, 3)
    mode = r.random()
    if mode < 0.12:
        parts = [N]
    elif mode < 0.24:
        parts = [1] * N
    else:
        k = r.randrange(1, min(N, 7) + 1)
        cuts = sorted(r.randrange(0, N + 1) for _ in range(k - 1))
        parts = [b - a for a, b in zip([0] + cuts, cuts + [N])]
    out = []
    for p in parts:
        if r.random() < 0.2:
            out.append(0)
        out.append(p)
    if r.random() < 0.2:
        out.append(0)
    return out


def build_jobs(ctx, budget):
    r = ctx.rng
    jobs = []
    while len(jobs) < budget:
        case0 = gen_config(r, ctx.tier)
        try:
            bank, comp = make_int_computer(case0)
            M, tr, D = params_of(case0, bank, comp)
        except Exception as e:
            ctx.count("ctor_error:" + type(e).__name__)
            continue
        if case0["energy"] and not tr < M:
            ctx.count("out_of_scope")  # no positive right support at all: energy impulse outside the clamp
            continue
        if D > 96:
            continue
        ns = lengths(r, case0["S"], M, D)
        r.shuffle(ns)
        for N in ns[: max(2, min(len(ns), 6))]:
            case = dict(case0)
            case["x"] = [r.randrange(-9, 10) for _ in range(N)]
            chunks = random_chunking(r, N)
            ops = ["F", "P"] + ["c%d" % n for n in chunks] + ["z"]
            if r.random() < 0.15:  # dtype clause
                d = r.choice([16, 32, 32, 1])
                amp = 3 * max(sum(abs(complex(*t)) for t in taps) for _, taps in case0["filters"])
                if d == 16 and (amp ** 2 if case0["power"] else amp) * sum(case0["window"]) >= 60000:
                    d = 32  # would overflow float16
                case["x"] = [max(-3, min(3, v)) for v in case["x"]] if d == 16 else case["x"]
                ops = ["d%d" % d, "F"] + (["c%d" % n for n in chunks] + ["z"] if d != 1 else [])
                if d != 1 and r.random() < 0.3 and chunks:
                    ops += ["c%d" % chunks[0], "d64", "c1", "d%d" % d, "z"]  # dtype switch mid-utterance: ValueError
            case["chunks"] = chunks
            case["ops"] = ops
            jobs.append((case, bank, comp, (M, tr, D)))
    return jobs


def stream_rows(parts):
    rows = []
    for st, r_, _ in parts:
        if st != "ok":
            return None
        rows += r_
    return rows


def check_case(ctx, case, comp, prm, mout, label="C03"):
    """Correspondence of one case + the exact-integer oracle clauses. Returns nothing; reports through ctx."""
    M, tr, D = prm
    ops = case["ops"]
    S = case["S"]
    N = len(case["x"])
    is_wf = wf(case, M, tr, D)
    inpre = in_precondition([(l, l + len(t)) for l, t in case["filters"]], S, case["centered"])
    pub = {k: case[k] for k in ("S", "filters", "centered", "pad", "floor", "energy", "power", "real", "window", "x", "ops")}
    pub.update(M=M, tr=tr, D=D, wf=is_wf, in_precondition=inpre)
    if inpre and not is_wf:
        ctx.gap_cases += 1  # inside the property's precondition but outside the theorems' WF (never observed)
    style = "centered" if case["centered"] else "causal"
    ctx.case(pub, nontrivial=N > 0 or len(ops) > 3,
             kind="intfir:%s:%s:%s" % (style, "wf" if is_wf else "nonwf", "real" if case["real"] else "complex"))
    ctx.count("V_blocks:%d" % min(4, N // max(1, D - M + 1)))
    if comp.started:  # a previous case ended in an exception inside finalize (outside WF): start from a fresh computer
        try:
            comp.finalize()
        except Exception:
            pass
        if comp.started:
            comp = make_int_computer(case)[1]
    impl = run_ops_impl(comp, case["x"], ops)
    conv = []
    bad_float = False
    for st, val, code in impl:
        if st == "ok" and not isinstance(val, list):
            rows = int_rows(val)
            if rows is None:
                bad_float = True
            conv.append((st, rows, code))
        else:
            conv.append((st, val, code))
    if bad_float:
        ctx.mismatch(pub, None, None, "implementation value not within 1e-6 of an integer (tracer broke)")
        return
    # ---- oracle on the implementation (exact integers), only where the theorems' scope says it must hold
    exp = spec_py(case, M, tr, D)
    dtype_ops = any(o.startswith("d") for o in ops)
    # (violations are raised only inside the property's own precondition; the rest of WF - centred computers with a
    # large shift - is covered by the theorems + the correspondence below and tallied as `wf_beyond_precondition`)
    if is_wf and not inpre:
        ctx.count("wf_beyond_precondition")
    if is_wf and inpre and exp is not None and not dtype_ops:
        full = conv[0]
        tags = dict(computer="si", tracer="intfir", style=style)
        if full[0] != "ok":
            ctx.violation(pub, "no exception", full[0], "compute_full raises inside the precondition",
                          tags=dict(clause="raises", **tags))
        else:
            if len(full[1]) != (N + S // 2) // S:
                ctx.violation(pub, (N + S // 2) // S, len(full[1]), "compute_full returns (N + S//2)//S frames",
                              tags=dict(clause="count", **tags))
            elif full[1] != exp:
                ctx.violation(pub, exp, full[1], "coefficient = sum_u w[u]*|sum_j h[j]*X[kS+u+o-j]|^p (integer tracer, exact)",
                              tags=dict(clause="value", **tags))
            sr = stream_rows(conv[2:])
            if sr is None:
                ctx.violation(pub, "no exception", [c[0] for c in conv[2:]], "compute_chunk/finalize raise inside the precondition",
                              tags=dict(clause="stream_raises", **tags))
            elif sr != full[1]:
                ctx.violation(pub, dict(full=full[1]), dict(stream=sr),
                              "concat(compute_chunk*, finalize) == compute_full (integer tracer, exact)",
                              tags=dict(clause="stream_eq_full", **tags))
    elif is_wf and inpre and dtype_ops:
        d = int(ops[0][1:])
        tags = dict(computer="si", tracer="intfir", clause="dtype")
        if d == 1:
            if conv[1][0] != "E:value":
                ctx.violation(pub, "ValueError", conv[1][0], "non-floating input is rejected", tags=tags)
        else:
            if conv[1][0] != "ok" or conv[1][2] != d:
                ctx.violation(pub, d, conv[1][2] if conv[1][0] == "ok" else conv[1][0], "result has the input's floating dtype", tags=tags)
    elif not is_wf:
        ctx.count("outside_WF")
    # ---- correspondence with the Lean model
    if mout == "bad-op":
        ctx.mismatch(pub, mout, None, "driver rejected the op line")
        return
    model = parse_model(mout)
    if len(model) != len(conv):
        ctx.mismatch(pub, mout, None, "op count")
        return
    for i, (m, c) in enumerate(zip(model, conv)):
        if c[0] == "spec":
            if is_wf and exp is not None and m[1] != exp:
                ctx.mismatch(pub, m[1], exp, "Lean spec vs python restatement of the documented formula")
            continue
        if m[0] == "ok" and c[0] == "ok" and c[2] in (16, 32) and m[2] == c[2] and rows_close(m[1], c[1], c[2]):
            continue  # a float16/float32 result holds the integer rounded to that precision
        if m[0] != c[0] or (m[0] == "ok" and (m[1] != c[1] or (m[2] != c[2] and not ops[i].startswith("d")))):
            ctx.mismatch(pub, m, c, "op %d (%s): model vs implementation" % (i, ops[i]))
            return


def intfir_correspondence(ctx, driver, budget):
    jobs = build_jobs(ctx, budget)
    lines = [driver_line(case, M, tr, D, case["ops"]) for case, _, _, (M, tr, D) in jobs]
    outs = driver.run(lines)
    ctx.count("correspondence_lines", len(lines))
    for (case, bank, comp, prm), mout in zip(jobs, outs):
        if ctx.out_of_time():
            ctx.note("time budget reached")
            break
        check_case(ctx, case, comp, prm, mout)


def boundary_scan(ctx, n_cfg):
    """Small-scope search pinning the boundary of WF: single-filter banks, every N up to a few frames.
    Inside WF any failure is a violation; outside WF the outcome is only tallied (the evidence shows that the
    causal boundary `S < max right support` is exact and that every centred configuration passes)."""
    r = ctx.rng
    grid = [(ce, left, wl, S) for ce in (False, True) for left in range(-3, 3) for wl in range(1, 7) for S in range(1, 8)]
    if ctx.tier != "thorough":
        r.shuffle(grid)
        grid = grid[:n_cfg]
    else:
        ctx.extra["wf_boundary_scope"] = "exhaustive: style x left in [-3,2] x width in [1,6] x S in [1,7], unpadded, all N <= 3S+2w+2"
    tally = ctx.extra.setdefault("wf_boundary", {})
    for ce, left, wl, S in grid:
        if ctx.out_of_time():
            break
        case0 = dict(S=S, filters=[[left, [[r.randrange(1, 5), 0] for _ in range(wl)]]], centered=ce, pad=False, floor=2,
                     energy=False, power=r.random() < 0.5, real=True, window=[r.randrange(1, 5) for _ in range(2 * S)])
        try:
            bank, comp = make_int_computer(case0)
            M, tr, D = params_of(case0, bank, comp)
        except Exception as e:
            ctx.count("ctor_error:" + type(e).__name__)
            continue
        is_wf = wf(case0, M, tr, D)
        inpre = in_precondition(bank.supports, S, ce)
        bad = None
        for N in range(0, 3 * S + 2 * wl + 3):
            case = dict(case0)
            case["x"] = [r.randrange(-9, 10) for _ in range(N)]
            case["ops"] = ["F"]
            exp = spec_py(case, M, tr, D)
            if comp.started:
                comp = make_int_computer(case0)[1]
            res = run_ops_impl(comp, case["x"], ["F"])[0]
            rows = int_rows(res[1]) if res[0] == "ok" else None
            ctx.evaluations += 1
            if res[0] != "ok" or rows != exp:
                bad = (N, res[0] if res[0] != "ok" else ("unreadable" if rows is None else ("count" if len(rows) != len(exp) else "value")))
                if is_wf and not inpre:
                    ctx.mismatch(dict(case, M=M, tr=tr, D=D, wf=True), exp, rows if res[0] == "ok" else res[0],
                                 "implementation != documented formula inside WF but outside the property's precondition")
                elif is_wf:
                    pub = dict(case, M=M, tr=tr, D=D, wf=True)
                    ctx.case(pub, kind="boundary:wf_fail")
                    ctx.violation(pub, exp, rows if res[0] == "ok" else res[0],
                                  "compute_full == documented formula inside WF (small-scope boundary scan)",
                                  tags=dict(computer="si", tracer="intfir", clause="boundary",
                                            style="centered" if ce else "causal"))
                break
        key = "%s:%s:%s:%s" % ("centered" if ce else "causal", "wf" if is_wf else "nonwf",
                               "pre" if inpre else "nopre", "all_N_ok" if bad is None else "fails:" + bad[1])
        tally[key] = tally.get(key, 0) + 1
        ctx.count("boundary_cfgs")
        if inpre and not is_wf:
            ctx.gap_cases += 1  # inside the property's precondition but outside the theorems' WF: must never happen


def si_stream_cases(ctx, driver_c03, budget=None):
    """C01's short-integration clause: (config, N, chunking) -> concatenated compute_chunk + finalize vs compute_full
    vs the Lean model (exact integers).  Same generator and same checks as C03's own run."""
    intfir_correspondence(ctx, driver_c03, budget or ctx.scale(300, 6000))


# ----------------------------------------------------------------------------------------------
# property oracle on library banks: direct np.convolve evaluation of the documented formula
# ----------------------------------------------------------------------------------------------

def dft_size_of(comp, bank, pad):
    D = max(comp.frame_length, int(np.ceil(2 * bank.sampling_rate / min(r - l for l, r in bank.supports_hz))))
    if pad:
        D = int(2 ** np.ceil(np.log2(D)))
    return D


def oracle_expected(comp, bank, style, energy, power, log, pad, window, x):
    """Independent of overlap-save, buffers, block accumulators, finalize: whole-signal np.convolve."""
    from pydrobert.speech import config

    S = comp.frame_shift
    sup = bank.supports
    centered = style == "centered"
    # the longest filter's support, from the bank alone (not from what the computer reports about itself):
    # centred: the widest support; causal: from the earliest left end (or sample 0) to the latest right end
    if centered:
        M = max(r - l for l, r in sup)
    else:
        M = max(r for l, r in sup) + max([0] + [-l for l, r in sup])
    tr = M // 2 if centered else max([0] + [-l for l, r in sup])
    D = dft_size_of(comp, bank, pad)
    o = tr - S if centered else tr
    N = len(x)
    T = (N + S // 2) // S
    x64 = np.asarray(x, dtype=np.float64)
    w = window.get_impulse_response(2 * S)
    hs = []
    if energy:
        h = np.zeros(M)
        h[tr] = 1
        hs.append(h)
    for i in range(bank.num_filts):
        ir = bank.get_impulse_response(i, D)
        l, r_ = sup[i]
        shift = (tr - (l + r_) // 2 + 1) if centered else tr
        hs.append(np.asarray([ir[(j - shift) % D] for j in range(M)]))
    out = np.zeros((T, len(hs)))
    scale = np.zeros(len(hs))
    for i, h in enumerate(hs):
        conv = np.convolve(x64, h) if N else np.zeros(0, dtype=h.dtype)  # conv[n] = sum_j h[j] x[n-j]
        y = np.zeros(T * S + 2 * S, dtype=conv.dtype)
        for q in range(len(y)):
            n = q + o
            if 0 <= n < len(conv):
                y[q] = conv[n]
        v = (y * y.conj()).real if power else np.abs(y)
        for k in range(T):
            out[k, i] = np.dot(w, v[k * S : k * S + 2 * S])
        amp = (np.max(np.abs(x64)) if N else 0.0) * np.sum(np.abs(h))
        scale[i] = (amp ** 2 if power else amp) * np.sum(np.abs(w))
    if log:
        lin = np.maximum(out, config.LOG_FLOOR_VALUE)
    else:
        lin = out
    return lin, scale


def build_bank(kind, scale, nf, lo, hi, analytic, rate=8000):
    from pydrobert.speech import filters

    sc_arg = {"mel": "mel", "bark": "bark", "linear": dict(name="linear", low_hz=0.0),
              "octave": dict(name="octave", low_hz=40.0)}[scale]
    if kind == "gabor":
        return filters.GaborFilterBank(sc_arg, num_filts=nf, low_hz=lo, high_hz=hi, sampling_rate=rate)
    if kind == "tri":
        return filters.TriangularOverlappingFilterBank(sc_arg, num_filts=nf, low_hz=lo, high_hz=hi, sampling_rate=rate,
                                                       analytic=analytic)
    if kind == "fbank":
        return filters.Fbank(num_filts=nf, low_hz=lo, high_hz=hi, sampling_rate=rate, analytic=analytic)
    return filters.ComplexGammatoneFilterBank(sc_arg, num_filts=nf, low_hz=lo, high_hz=hi, sampling_rate=rate)


def make_bank(r, rate):
    kind = r.choice(["gabor", "tri", "fbank", "gammatone"])
    scale = r.choice(["mel", "bark", "linear", "octave"])
    nf = r.choice([2, 3, 5])
    lo, hi = r.choice([(20.0, 3800.0), (100.0, 2000.0), (300.0, 3900.0), (1000.0, 3500.0)])
    analytic = r.random() < 0.5
    return kind, scale, nf, lo, hi, analytic, build_bank(kind, scale, nf, lo, hi, analytic, rate)


WINDOWS = ("bartlett", "blackman", "gamma", "hamming", "hann")


def window_of(name):
    from pydrobert.speech import filters

    return {"hann": filters.HannWindow, "hamming": filters.HammingWindow, "gamma": filters.GammaWindow,
            "bartlett": filters.BartlettWindow, "blackman": filters.BlackmanWindow}[name]()


def lib_signal(sig_seed, N, dt, silent_tail=False, loud=False, scale=None):
    x = np.random.RandomState(sig_seed).randn(N)
    if scale is not None:
        x = x * scale   # finite signals of huge / tiny magnitude (float64 only)
    if silent_tail:
        x[(2 * N) // 5:] = 0.0
    if loud and N:
        # isolated loud samples (clicks): 300 is exact in every float type, its square is beyond float16's range - the
        # computers work in double precision whatever the input's type, and the logarithm of the result fits again
        x[:: max(1, N // 5)] = 300.0
    return x.astype(DT[dt])


def library_case_run(case):
    """Build the computer of a library-bank case and run compute_full + the chunked stream. Returns
    (comp, bank, x, full, stream) - exceptions propagate."""
    from pydrobert.speech import compute

    bank = build_bank(case["bank"], case["scale"], case["num_filts"], case["low"], case["high"], case["analytic"])
    flags = {k: case[k] for k in ("include_energy", "use_log", "use_power", "pad_to_nearest_power_of_two")}
    comp = compute.SIFrameComputer(bank, frame_shift_ms=case["shift_ms"], frame_style=case["style"],
                                   window_function=window_of(case["window"]), **flags)
    if case.get("log_floor_after_ctor") is not None:
        # the recorded run changed the configuration knob after building the computer (the caller of this function,
        # `replay`, evaluates the oracle while the value is still in force and the process then ends)
        from pydrobert.speech import config
        config.LOG_FLOOR_VALUE = case["log_floor_after_ctor"]
    x = lib_signal(case["sig_seed"], case["N"], case["dtype"], case.get("silent_tail", False), case.get("loud", False), case.get("scale"))
    x.setflags(write=False)
    full = comp.compute_full(x)
    parts, off = [], 0
    for c in case["chunks"]:
        parts.append(comp.compute_chunk(x[off : off + c]))
        off += c
    parts.append(comp.finalize())
    return comp, bank, x, full, np.concatenate(parts)


def library_oracle(ctx, n):
    from pydrobert.speech import config

    floor0 = config.LOG_FLOOR_VALUE
    try:
        return library_oracle_(ctx, n, config, floor0)
    finally:
        config.LOG_FLOOR_VALUE = floor0


def library_oracle_(ctx, n, config, floor0):
    from pydrobert.speech import compute, filters

    r = ctx.rng
    rate = 8000
    done = 0
    tries = 0
    while done < n and tries < 6 * n and not ctx.out_of_time():
        tries += 1
        config.LOG_FLOOR_VALUE = floor0
        try:
            kind, scale, nf, lo, hi, analytic, bank = make_bank(r, rate)
        except Exception as e:
            ctx.count("bank_ctor_error:" + type(e).__name__)
            continue
        style = r.choice(["causal", "centered"])
        flags = dict(include_energy=r.random() < 0.5, use_log=r.random() < 0.5, use_power=r.random() < 0.5,
                     pad_to_nearest_power_of_two=r.random() < 0.5)
        wname = r.choice(WINDOWS)
        shift_ms = r.choice([0.5, 1.0, 2.0, 5.0, 10.0])
        dt = r.choice([64, 64, 32, 16])
        # a fixed share of the cases: clicks in a narrow float type, energy + power + log (fixed in every parameter)
        loud = done % 4 == 3
        # another fixed share: finite float64 signals of huge / tiny magnitude, magnitude (not power) coefficients - the modulus
        # must not be computed through re**2 + im**2
        scale = {5: 1e160, 6: 1e-170}.get(done % 8)
        if scale is not None:
            dt = 64
            flags = dict(include_energy=done % 16 >= 8, use_log=scale > 1, use_power=False, pad_to_nearest_power_of_two=done % 3 == 0)
        if loud:
            dt = 16 if done % 8 == 3 else 32
            flags = dict(include_energy=True, use_log=True, use_power=True, pad_to_nearest_power_of_two=done % 16 >= 8)
            shift_ms = 2.0
        case = dict(computer="si", bank=kind, scale=scale, num_filts=nf, low=lo, high=hi, analytic=analytic, style=style,
                    shift_ms=shift_ms, window=wname, dtype=dt, **flags)
        try:
            comp = compute.SIFrameComputer(bank, frame_shift_ms=shift_ms, frame_style=style, window_function=window_of(wname),
                                           **flags)
        except Exception as e:
            ctx.count("computer_ctor_error:" + type(e).__name__)
            continue
        S = comp.frame_shift
        if S < 1 or not in_precondition(bank.supports, S, style == "centered"):
            ctx.count("out_of_scope")
            continue
        if flags["use_log"] and done % 3 == 1:
            # LOG_FLOOR_VALUE is a configuration knob read when the log is taken: raise it AFTER the computer was built
            # (restored at the top of the next iteration / on exit); the oracle reads the live value as well
            config.LOG_FLOOR_VALUE = 1e-2
            case["log_floor_after_ctor"] = 1e-2
            ctx.count("log_floor_changed_after_ctor")
        L = comp.frame_length
        if L > 2500:
            ctx.count("skipped_large")
            continue
        D = dft_size_of(comp, bank, flags["pad_to_nearest_power_of_two"])
        V = D - (L - S + 1) + 1
        N = r.choice([0, 1, S // 2, S, S + 1, L - 1, L, L + 1, V, V + 1, 2 * V + 3, r.randrange(0, 3 * V + 2), 3 * D + 7])
        sig_seed = r.randrange(1 << 30)
        # a fixed share of the signals ends in digital silence (last 60 %): silent frames are where "floored at
        # LOG_FLOOR_VALUE" decides the stored value, in every result dtype
        silent_tail = done % 4 == 2
        if loud:
            N = 3 * D + 7   # several DFT blocks inside one chunk
        x = lib_signal(sig_seed, N, dt, silent_tail, loud, scale)
        x.setflags(write=False)
        chunks = random_chunking(r, N)
        case.update(N=N, chunks=chunks, L=L, S=S, D=D, sig_seed=sig_seed, silent_tail=silent_tail, loud=loud, scale=scale)
        if scale is not None:
            ctx.count("scaled_signal:%g" % scale)
        if loud:
            ctx.count("loud_clicks:f%d" % dt)
        ctx.case(case, kind="lib:%s:%s:f%d" % (kind, style, dt))
        done += 1
        tags = dict(computer="si", tracer="library", style=style, bank=kind)
        strict = bool(flags["use_log"]) and bool(silent_tail)
        if strict:
            case["caller_fp_state"] = "errstate(divide/invalid=raise) + RuntimeWarning as error"
            ctx.count("strict_fp_state")
        try:
            with common.strict_fp(strict):
                full = comp.compute_full(x)
                parts, off = [], 0
                for c in chunks:
                    parts.append(comp.compute_chunk(x[off : off + c]))
                    off += c
                parts.append(comp.finalize())
                st = np.concatenate(parts)
        except Exception as e:
            if comp.started:
                try:
                    comp.finalize()
                except Exception:
                    pass
            ctx.violation(case, "no exception", "%s: %s" % (type(e).__name__, e), "compute_full / streaming raises inside the precondition",
                          tags=dict(clause="raises", exc=type(e).__name__, dtype=dt, **tags))
            continue
        if done % 4 == 1:
            # a copy of a computer (copy.deepcopy, pickle round trip), taken after the original was used, is a computer with
            # the same configuration: same features, bit for bit
            for how, cl in common.clone_routes(comp):
                ccase = dict(case, copy=how)
                ctx.case(ccase, kind="lib_copy:" + how)
                if isinstance(cl, Exception):      # computers that refuse to be copied: no copy, nothing to check
                    ctx.count("not_copyable:" + how)
                    continue
                try:
                    full_c = cl.compute_full(x)
                except Exception as e:
                    ctx.violation(ccase, "a computer", "%s: %s" % (type(e).__name__, str(e)[:150]), "a copied computer computes",
                                  tags=dict(clause="copy_equivalence", how="raises", **tags))
                    continue
                if full_c.shape != full.shape or full_c.tobytes() != full.tobytes():
                    ctx.violation(ccase, "the original's features", "differs", "a %s copy of the computer returns the same features" % how,
                                  tags=dict(clause="copy_equivalence", **tags))
        T = (N + S // 2) // S
        if full.shape != (T, comp.num_coeffs):
            ctx.violation(case, [T, comp.num_coeffs], list(full.shape), "compute_full returns (N + S//2)//S frames",
                          tags=dict(clause="count", **tags))
            continue
        if full.dtype != x.dtype:
            ctx.violation(case, str(x.dtype), str(full.dtype), "result has the input's floating dtype",
                          tags=dict(clause="dtype", **tags))
        if st.shape != full.shape or st.dtype != full.dtype:
            ctx.violation(case, list(full.shape), list(st.shape), "streaming returns the same shape/dtype as compute_full",
                          tags=dict(clause="stream_shape", **tags))
            continue
        lin, scale = oracle_expected(comp, bank, style, flags["include_energy"], flags["use_power"], flags["use_log"],
                                     flags["pad_to_nearest_power_of_two"], window_of(wname), x)
        got = full.astype(np.float64)
        gst = st.astype(np.float64)
        eps = {64: 1e-9, 32: 2e-6, 16: 4e-3}[dt]
        if T and flags["use_log"]:
            # "the log is floored at LOG_FLOOR_VALUE": every stored log coefficient is finite and not below log(floor),
            # in the result's own dtype
            from pydrobert.speech import config as _cfg
            lf = float(np.log(_cfg.LOG_FLOOR_VALUE))
            low = ~(np.isfinite(got) & (got >= lf - 8 * eps * (1 + abs(lf))))
            if np.any(low):
                k, i = [int(v) for v in np.argwhere(low)[0]]
                ctx.violation(case, dict(frame=k, coeff=i, at_least=lf), dict(value=float(got[k, i]), n_bad=int(np.sum(low))),
                              "with use_log every coefficient is finite and >= log(LOG_FLOOR_VALUE)", tags=dict(clause="log_floor", **tags))
        if T:
            if flags["use_log"]:
                if dt == 64:
                    gl, gs = np.exp(got), np.exp(gst)
                    tol = eps * (scale[None, :] + 1e-300) + 1e-9 * np.abs(lin)
                    bad = np.abs(gl - lin) > tol
                    bad_s = np.abs(gs - gl) > tol
                else:  # low-precision result: compare the stored logs where the coefficient is well conditioned
                    okc = lin > 1e-4 * scale[None, :]
                    ctx.count("lowprec_log_entries_skipped", int(np.sum(~okc)))
                    tol = eps * (1 + np.abs(np.log(lin))) * 4
                    bad = okc & (np.abs(got - np.log(lin)) > tol)
                    bad_s = okc & (np.abs(gst - got) > tol)
            else:
                tol = eps * scale[None, :] + 4 * eps * np.abs(lin) + 1e-300
                bad = np.abs(got - lin) > tol
                bad_s = np.abs(gst - got) > tol
            if np.any(bad):
                k, i = [int(v) for v in np.argwhere(bad)[0]]
                ctx.violation(case, dict(frame=k, coeff=i, value=float(np.log(lin[k, i]) if flags["use_log"] else lin[k, i])),
                              dict(value=float(got[k, i]), n_bad=int(np.sum(bad))),
                              "coefficient i of frame k == post(sum_u w[u]*|(x*h_i)[kS+u+offs]|^p) by direct np.convolve",
                              tags=dict(clause="value", **tags))
            if np.any(bad_s):
                k, i = [int(v) for v in np.argwhere(bad_s)[0]]
                ctx.violation(case, dict(frame=k, coeff=i, value=float(got[k, i])), dict(value=float(gst[k, i])),
                              "concat(compute_chunk*, finalize) == compute_full up to round-off (library bank)",
                              tags=dict(clause="stream_eq_full", **tags))
    # non-floating input is rejected
    try:
        kind, scale, nf, lo, hi, analytic, bank = make_bank(r, rate)
        comp = compute.SIFrameComputer(bank, frame_shift_ms=2.0)
        for bad_dt in (np.int32, np.int64, np.complex128, bool):
            ctx.case(dict(computer="si", bank=kind, dtype=str(np.dtype(bad_dt))), kind="lib:nonfloat")
            try:
                comp.compute_full(np.zeros(50, dtype=bad_dt))
                ctx.violation(dict(dtype=str(np.dtype(bad_dt))), "ValueError", "no exception", "non-floating input is rejected",
                              tags=dict(computer="si", clause="dtype_reject"))
                if comp.started:
                    comp.finalize()
            except ValueError:
                ctx.count("nonfloat_rejected")
    except Exception as e:
        ctx.count("nonfloat_setup_error:" + type(e).__name__)


def run(ctx, driver):
    intfir_correspondence(ctx, driver, ctx.scale(3000, 14000))
    boundary_scan(ctx, ctx.scale(60, 0))
    library_oracle(ctx, ctx.scale(500, 2500))


def run_oracle_only(ctx):
    boundary_scan(ctx, ctx.scale(60, 0))
    library_oracle(ctx, ctx.scale(500, 2500))


def replay(rp):
    case = rp.get("case", {})
    print(common.canon({k: v for k, v in case.items() if k != "x"}))
    if "filters" in case:
        bank, comp = make_int_computer(case)
        M, tr, D = params_of(case, bank, comp)
        ops = case.get("ops") or (["F", "P"] + ["c%d" % n for n in case.get("chunks", [])] + ["z"])
        impl = run_ops_impl(comp, case["x"], ops)
        print("x:", case["x"])
        print("impl:", [(st, int_rows(v) if st == "ok" and not isinstance(v, list) else v, code) for st, v, code in impl])
        d = common.Driver("C03")
        out = d.run([driver_line(case, M, tr, D, ops)])[0]
        print("model:", parse_model(out))
        print("formula:", spec_py(case, M, tr, D))
    elif case.get("computer") == "si" and "sig_seed" in case:
        try:
            comp, bank, x, full, st = library_case_run(case)
        except Exception as e:
            print("impl: raises %s: %s" % (type(e).__name__, e))
        else:
            lin, scale = oracle_expected(comp, bank, case["style"], case["include_energy"], case["use_power"], case["use_log"],
                                         case["pad_to_nearest_power_of_two"], window_of(case["window"]), x)
            exp = np.log(lin) if case["use_log"] else lin
            print("impl: compute_full shape %s dtype %s; stream shape %s" % (full.shape, full.dtype, st.shape))
            print("np.convolve formula: shape %s" % (exp.shape,))
            if full.shape == exp.shape and full.size:
                d = np.abs(full.astype(np.float64) - exp)
                k, i = np.unravel_index(np.argmax(d), d.shape)
                print("largest deviation at frame %d coeff %d: impl %r formula %r" % (k, i, float(full[k, i]), float(exp[k, i])))
            if st.shape == full.shape and full.size:
                print("max |stream - full| = %r" % float(np.max(np.abs(st.astype(np.float64) - full.astype(np.float64)))))
    print("oracle:", rp.get("oracle"), "expected", rp.get("expected"), "got", rp.get("got"))
    return 0
